# -*- coding: utf-8 -*-
"""C08 - MSM waiting/transition times are first-passage statistics of the chain."""
from fractions import Fraction

import common as C
import gen as G

PROP = 'C08'
THEOREMS = ['wt_online_offline_thm', 'tt_online_offline_thm', 'edges_multiples', 'bin_k_fraction', 'density_integrates_to_one']
CONFIGS = [dict(jit=True), dict(jit=False)]
RULE = ('estimated models (2..6 states, all label alphabets, lag 1..4), disjoint start/final sets of one '
        'or several states, steps 1..2000. Exact coupling: NumPy generator seeded (start state drawn from '
        'the final set), compiled/interpreted generator seeded, draws recorded and re-seeded; the list '
        'returned by estimate_waiting_times / estimate_transition_times (return_list=True) must be the '
        'multiset of event durations of the model chain on the same draws times the lag, in ascending '
        'order; histogram form: density vs exact (1e-12), edges exact multiples of the lag; '
        'msm.estimate_paths must equal the md pathway extraction of the chain from the same generator '
        'state; overlapping / absent states rejected. Non-trivial: >= 1 closed event and >= 1 frame '
        'outside both basins.'
        ' Added classes: the sampling table itself against the exact model (as in C07), a transition of probability < 1e-5, a lag of 1e6 frames (durations x lag > 2^31), > 64/128 states, > 2^20 steps (pathways vs md extraction of the chain from the same generator state), related history first.'
        ' Later: NumPy int8/int16 lag times with long events (histogram form), alphabets with a negative label and largest label n-1, a deterministic 1025-state cycle (every event lasts 1024 steps).'
        ' Fifth/sixth batch: 129..257-state models with pathway keys checked against the exact model, absent basin labels congruent to existing ones in narrow types, unsigned lag types.')
TRUSTED = ['generator uniformity (the distributional sentence of the property reduces to C07 + this coupling)']
ASSUMPTIONS = []
BATCH = 40


def gen(rng, tier):
    n = G.budget(70) if tier == 'quick' else 2500
    for _ in range(n):
        k = rng.randint(2, 6)
        labs, akind = G.alphabet(rng, k=k)
        lag = rng.choice([1, 1, 2, 3, 4])
        trajs = [G.traj(rng, labs, rng.randint(40, 200), sticky=rng.choice([0.3, 0.6, 0.8])) for _ in range(rng.choice([1, 2]))]
        present = sorted({v for t in trajs for v in t})
        if len(present) < 2:
            continue
        a = rng.randint(1, max(1, len(present) // 2))
        S = rng.sample(present, a)
        rest = [p for p in present if p not in S]
        F = rng.sample(rest, rng.randint(1, max(1, len(rest) // 2)))
        mal = None
        r = rng.random()
        if r < 0.06:
            F = F + [S[0]]
            mal = 'overlap'
        elif r < 0.12:
            S = S + [max(present) + 3]
            mal = 'absent'
        case = {'trajs': trajs, 'lag': lag, 'S': S, 'F': F, 'steps': rng.choice([1, 2, 5, 20, 100, 500, 2000]),
                'seed': rng.randrange(2**31), 'npseed': rng.randrange(2**31), 'alpha': akind, 'mal': mal}
        if rng.random() < 0.15:
            case['lagtype'] = rng.choice(['int8', 'int8', 'int16', 'int32', 'int64', 'uint8', 'uint8', 'uint16', 'uint64'])      # NumPy integer scalars as lag time
        yield case
    for _ in range(8 if tier == 'quick' else 150):
        # trajectories in a NARROW integer type and an ABSENT start / final label that is congruent to an existing one
        # modulo 2^8 / 2^16 (or a float next to one): still absent, still rejected
        dt = rng.choice(['uint8', 'int8', 'int16', 'uint16'])
        bits = 8 if dt.endswith('8') else 16
        lo = 0 if dt.startswith('u') else -2 ** (bits - 1)
        labs = sorted(rng.sample(range(lo, lo + 2 ** bits), 3) if rng.random() < 0.5 else rng.sample(range(0, 40), 3))
        if labs == [1, 2, 3]:
            labs = [0, 2, 3]
        t = G.traj(rng, labs, rng.randint(60, 150), sticky=0.6) + labs
        ghost = rng.choice(labs) + rng.choice([1, -1, 2]) * 2 ** bits
        S, F = [labs[0]], [labs[2]]
        if rng.random() < 0.5:
            S = rng.choice([[ghost], [labs[0], ghost]])
        else:
            F = rng.choice([[ghost], [labs[2], ghost]])
        yield {'trajs': [t], 'lag': 1, 'S': S, 'F': F, 'steps': 200, 'seed': rng.randrange(2**31), 'npseed': rng.randrange(2**31),
               'alpha': 'narrow-' + dt + '+ghost', 'mal': 'absent', 'dtype': dt}
    for case in gen_long(rng, tier):
        yield case
    for case in gen_wide(rng, tier):
        yield case
    for case in gen_typed(rng, tier):
        yield case
    for case in gen_special(rng, tier):
        yield case


def gen_long(rng, tier):
    for _ in range(1 if tier == 'quick' else 6):       # transitions with probability below 1e-5
        labs, akind = G.alphabet(rng, k=rng.randint(2, 4))
        rle = G.rare_rle(rng, labs)
        others = sorted({a for a, _ in rle[0]} - {labs[0]})
        yield {'trajs': None, 'rle': rle, 'lag': 1, 'S': [labs[0]], 'F': [others[0]], 'steps': 2000,
               'seed': rng.randrange(2**31), 'npseed': rng.randrange(2**31), 'alpha': akind, 'mal': None, 'long': 'rare'}
    for _ in range(2 if tier == 'quick' else 4):
        # a lag time of 1e6 frames and a transition of probability 1e-4: durations x lag exceed 2^31
        a, b = rng.sample([0, 1, 2, 5], 2)
        L = 10**6
        rle = [[[a, L + 50], [b, 300], [a, L + 50]]]
        yield {'trajs': None, 'rle': rle, 'lag': L, 'S': [a], 'F': [b], 'steps': 10000,
               'seed': rng.randrange(2**31), 'npseed': rng.randrange(2**31), 'alpha': 'huge-lag', 'mal': None, 'long': 'huge-lag'}


def gen_special(rng, tier):
    for _ in range(3 if tier == 'quick' else 40):
        # alphabets with a negative label whose largest label equals (number of states - 1)
        n = rng.randint(3, 5)
        labs = sorted(rng.sample(range(-6, n - 1), n - 1)) + [n - 1]
        if labs[0] >= 0:
            labs[0] = -rng.randint(1, 4)
        t = G.traj(rng, labs, rng.randint(80, 200), sticky=0.6) + labs
        S, F = [labs[0]], [labs[-1]]
        yield {'trajs': [t], 'lag': 1, 'S': S, 'F': F, 'steps': rng.choice([100, 500]), 'seed': rng.randrange(2**31),
               'npseed': rng.randrange(2**31), 'alpha': 'negative-max-n-1', 'mal': None}
    for _ in range(1 if tier == 'quick' else 2):
        # a deterministic cycle over 1025 states: every event from state 0 to state 1024 lasts exactly 1024 steps
        k = 1025
        t = [i % k for i in range(2 * k + 7)]
        yield {'trajs': [t], 'lag': 1, 'S': [0], 'F': [k - 1], 'steps': 6000, 'seed': rng.randrange(2**31),
               'npseed': rng.randrange(2**31), 'alpha': 'cycle-1024', 'mal': None, 'long': 'cycle-1024'}


def gen_typed(rng, tier):
    for _ in range(3 if tier == 'quick' else 30):
        # int8 / int16 lag times and events of many steps: (longest event + 2) x lag beyond that type
        labs, akind = G.alphabet(rng, k=3)
        lt = rng.choice(['int8', 'int8', 'int16'])
        lag = rng.choice([3, 4, 10]) if lt == 'int8' else rng.choice([1000, 3000])
        n = 400 if lt == 'int8' else 9000
        t = G.traj(rng, labs, n * (lag if lt == 'int8' else 1) // (1 if lt == 'int16' else 1), sticky=0.97 if lt == 'int8' else 0.9995) + labs
        yield {'trajs': [t], 'lag': lag, 'S': [labs[0]], 'F': [labs[2]], 'steps': 3000, 'seed': rng.randrange(2**31),
               'npseed': rng.randrange(2**31), 'alpha': akind + '+typed-lag', 'mal': None, 'lagtype': lt}


def gen_wide(rng, tier):
    for _w in range(2 if tier == 'quick' else 10):
        # more than 64 / 128 / 256 states (index arithmetic, masks, tables and INDEX TYPES that depend on the state count);
        # every second case lies beyond 128 states
        k = rng.choice([66, 70, 127, 128]) if _w % 2 == 0 else rng.choice([129, 131, 160, 200, 255, 256, 257])
        base = rng.choice([0, 1, -40])
        labs = [base + 2 * i for i in range(k)] if rng.random() < 0.5 else list(range(base, base + k))
        t, cur = [], 0
        for _i in range(rng.randint(2500, 4000)):
            t.append(labs[cur])
            r = rng.random()
            cur = (cur + 1) % k if r < 0.8 else cur if r < 0.9 else rng.randrange(k)
        S = [labs[rng.randrange(0, 5)]]
        F = [labs[rng.randrange(64, k)]]
        if rng.random() < 0.5:
            S.append(labs[rng.randrange(5, 60)])
        yield {'trajs': [t + labs], 'lag': 1, 'S': S, 'F': F, 'steps': 2000, 'seed': rng.randrange(2**31),
               'npseed': rng.randrange(2**31), 'alpha': 'many-states', 'mal': None}
    for _ in range(1 if tier == 'quick' else 2):
        # more than 2^20 steps: only what needs no exact coupling to the draws is compared
        labs = rng.sample([1, 2, 3, 5, 8], 3)
        # start state left at once, a very sticky middle state, final state left at once: the chain is inside an open
        # event nearly all the time, so an event straddles step 2^20 almost surely
        t = []
        for _r in range(rng.randint(8, 12)):
            t += [labs[0]] * rng.randint(1, 2) + [labs[1]] * rng.randint(30, 60) + [labs[2]] * rng.randint(1, 2)
        t += [labs[0]]
        yield {'trajs': [t], 'lag': 1, 'S': [labs[0]], 'F': [labs[2]], 'steps': 2**20 + rng.randint(1000, 9000),
               'seed': rng.randrange(2**31), 'npseed': rng.randrange(2**31), 'alpha': 'huge-steps', 'mal': None, 'long': 'huge-steps'}


def corpus():
    return [{'trajs': [[0, 1, 0, 1, 1, 0, 0, 1, 0]], 'lag': 1, 'S': [0], 'F': [1], 'steps': 30, 'seed': 0, 'npseed': 0, 'alpha': 'corpus', 'mal': None},
            {'trajs': [[1, 2, 3, 2, 1, 3, 3, 2, 1, 1, 2, 3, 1, 3, 2]], 'lag': 2, 'S': [1, 2], 'F': [2, 3], 'steps': 10, 'seed': 1, 'npseed': 1, 'alpha': 'corpus', 'mal': 'overlap'}]


def impl_init():
    from props import c07
    c07.impl_init()


def impl(case):
    import random as pyrandom
    import numpy as np
    import numba
    import msmhelper as mh
    from msmhelper.msm import timescales as ts
    from props import c07
    nojit = bool(numba.config.DISABLE_JIT)
    seed, record = c07._rec
    trajs = [np.array(t, dtype=case.get('dtype')) for t in G.expand(case)]
    st = mh.StateTraj(trajs)
    states = [int(s) for s in st.states]
    out = {'states': states}
    if len(trajs[0]) < 100000:
        c07.related(trajs, case['lag'], lambda d: mh.msm.estimate_waiting_times(trajs=d, lagtime=case['lag'], start=case['S'], final=case['F'], steps=5))
    try:
        cm, perm = ts._get_cummat(trajs, case['lag'])
        if len(states) <= 300:
            out.update({'cm': [[float(x).hex() for x in r] for r in cm], 'perm': [[int(x) for x in r] for r in perm]})
    except (AttributeError, TypeError) as exc:
        out['hook_local'] = '_get_cummat: %s' % str(exc)[:120]
    steps = case['steps']

    def reseed():
        np.random.seed(case['npseed'])
        if nojit:
            pyrandom.seed(case['seed'])
        else:
            seed(case['seed'])

    def draws(k):
        reseed()
        if nojit:
            d = [pyrandom.random() for _ in range(k)]
        else:
            d = [float(x) for x in record(k)]
        return d
    huge = case.get('long') in ('huge-steps', 'cycle-1024')
    out['us'] = [] if huge else [u.hex() for u in draws(steps)]
    lagv = np.dtype(case['lagtype']).type(case['lag']) if case.get('lagtype') else case['lag']
    kw = dict(trajs=trajs, lagtime=lagv, start=case['S'], final=case['F'], steps=steps)

    def guarded(f):
        try:
            return f()
        except Exception as exc:  # noqa
            return {'err': type(exc).__name__, 'msg': str(exc)[:100]}
    if case['mal'] is None:
        reseed()
        idxs_final = np.array([st.state_to_idx(s) for s in np.unique(case['F'])])
        out['start'] = int(np.random.choice(idxs_final))
    for name, fn in (('wt', mh.msm.estimate_waiting_times), ('tt', ts.estimate_transition_times)):
        if huge:
            if name == 'wt':
                reseed()
                lst = guarded(lambda: [int(v) for v in fn(return_list=True, **kw)])
                out['wt_sorted'] = lst if isinstance(lst, dict) else bool(lst == sorted(lst) and all(v > 0 and v % case['lag'] == 0 for v in lst))
                out['wt_values'] = lst if isinstance(lst, dict) or len(lst) > 50 else lst
            continue
        reseed()
        out[name + '_list'] = guarded(lambda: [int(v) for v in fn(return_list=True, **kw)])
        reseed()

        def hist():
            d, e = fn(**kw)
            return {'dens': [float(v).hex() for v in d], 'edges': [int(v) if float(v).is_integer() else float(v) for v in e]}
        out[name + '_hist'] = guarded(hist)
    # pathway estimate: md extraction on the chain from the same generator state
    reseed()
    out['paths'] = guarded(lambda: sorted((list(map(int, k)), list(map(int, v))) for k, v in
                                          mh.msm.estimate_paths(trajs=trajs, lagtime=case['lag'], start=case['S'], final=case['F'], steps=steps).items()))
    reseed()

    def ref():
        chain = ts.propagate_MCMC(trajs, case['lag'], steps)
        return sorted((list(map(int, k)), list(map(int, v))) for k, v in mh.md.estimate_paths(chain, case['S'], case['F']).items())
    out['paths_ref'] = guarded(ref)
    return out


def requests(case):
    if case.get('long') in ('huge-lag', 'huge-steps', 'cycle-1024') or case['mal']:
        return []
    return [[703] + C.enested(G.expand(case)) + [case['lag']]]


def judge(case, ibc, answers):
    probs = []
    for cfg, r in ibc.items():
        def P(kind, what, finding=None):
            probs.append({'kind': kind, 'cfg': cfg, 'what': what, 'finding': finding})
        if 'err' in r and 'states' not in r:
            P('impl-vs-spec', 'harness call failed: %s %s' % (r['err'], r.get('msg')))
            continue
        if case['mal']:
            for k in ('wt_list', 'tt_list', 'wt_hist', 'tt_hist', 'paths'):
                if not (isinstance(r[k], dict) and r[k].get('err') == 'ValueError'):
                    P('impl-vs-spec', '%s: %s start/final states not rejected with ValueError: %s' % (k, case['mal'], C.short(r[k], 80)))
            continue
        states = r['states']
        n = len(states)
        if case.get('long') == 'cycle-1024':
            lst = r.get('wt_values')
            want = (case['steps'] - 1) // 1025
            if not isinstance(lst, list) or any(v != 1024 for v in lst) or not (want - 1 <= len(lst) <= want + 1):
                P('impl-vs-spec', 'deterministic cycle: every waiting time is 1024 steps and about %d events fit into %d steps, got %s' % (want, case['steps'], C.short(lst, 80)))
            if r['paths'] != r['paths_ref']:
                P('impl-vs-spec', 'msm.estimate_paths is not the md pathway extraction of the chain from the same generator state')
            continue
        if case.get('long') == 'huge-steps':
            if r.get('wt_sorted') is not True:
                P('impl-vs-spec', 'waiting times of a %d-step realisation are not positive multiples of the lag in ascending order: %s' % (case['steps'], C.short(r.get('wt_sorted'), 80)))
            if r['paths'] != r['paths_ref']:
                a, b = dict((tuple(k), v) for k, v in r['paths']), dict((tuple(k), v) for k, v in r['paths_ref'])
                bad = [k for k in set(a) | set(b) if a.get(k) != b.get(k)][:2]
                P('impl-vs-spec', 'msm.estimate_paths over %d steps is not the md pathway extraction of the chain from the same generator state (paths %s differ)' % (case['steps'], bad))
            continue
        if r.get('hook_local'):
            P('correspondence', 'instrumented private helper no longer matches: %s' % r['hook_local'])
            # what can still be decided without the sampling table
            for name in ('wt', 'tt'):
                got, h = r[name + '_list'], r[name + '_hist']
                if isinstance(got, list):
                    if got != sorted(got):
                        P('impl-vs-spec', '%s list is not in ascending order: %s' % (name, C.short(got, 100)), 'msm-times-unsorted')
                    if any(v % case['lag'] for v in got):
                        P('impl-vs-spec', '%s times are not multiples of the lag time' % name)
                if isinstance(h, dict) and 'edges' in h and h['edges'] != [k * case['lag'] for k in range(len(h['edges']))]:
                    P('impl-vs-spec', '%s edges %s are not consecutive multiples of the lag' % (name, h['edges'][:6]))
            if r['paths'] != r['paths_ref']:
                P('impl-vs-spec', 'msm.estimate_paths is not the md pathway extraction of the chain from the same generator state')
            continue
        cm = [[Fraction(float.fromhex(x)) for x in row] for row in r['cm']]
        if answers:
            # the sampling table itself: every observed transition keeps an interval of length T_ij
            from props import c07
            rd0 = C.Reader(answers[0])
            m = rd0.res(lambda: (rd0.Qmat(), rd0.Zs(), rd0.res(lambda: c07._cm(rd0))))
            if m[0] == 'ok' and m[1][1] == states:
                c07.check_cummat(cm, r['perm'], m[1][0], states, P)
            else:
                P('impl-vs-spec', 'state list %s but the model answers %s' % (states, C.short(m, 80)))
            if m[0] == 'ok' and isinstance(r['paths'], list):
                # the pathways against the EXACT model (not against the library's own chain): every key leads from the
                # start set to the final set over states of the model and uses only transitions with T_ij > 0
                Tm, ms = m[1][0], m[1][1]
                for key, _vs in r['paths']:
                    bad = None
                    if any(x not in ms for x in key):
                        bad = 'holds a label that is not a state of the model'
                    elif key[0] not in case['S'] or key[-1] not in case['F']:
                        bad = 'does not lead from the start set %s to the final set %s' % (case['S'], case['F'])
                    else:
                        for a, b in zip(key, key[1:]):
                            # (a state whose row is all zero was never left in the data: what the sampler does from it is not fixed)
                            if Tm[ms.index(a)][ms.index(b)] == 0 and any(x != 0 for x in Tm[ms.index(a)]):
                                bad = 'uses the transition %d>%d although T = 0 in the exact model' % (a, b)
                                break
                    if bad:
                        P('impl-property', 'msm.estimate_paths: pathway %s %s' % (C.short(key, 80), bad))
                        break
        us = [Fraction(float.fromhex(u)) for u in r['us']]
        S = sorted({states.index(s) for s in case['S']})
        F = sorted({states.index(s) for s in case['F']})
        req = [801, n]
        for i in range(n):
            req += C.eQs(cm[i]) + C.eZs(r['perm'][i])
        req += [r['start']] + C.eZs(S) + C.eZs(F) + C.eQs(us)
        rd = C.Reader(C.mrun([req])[0])
        dw = rd.list(lambda: (rd.Z(), rd.Z()))
        durs_w = rd.Zs()
        dt = rd.list(lambda: (rd.Z(), rd.Z()))
        durs_t = rd.Zs()
        lag = case['lag']
        if sorted(x for k, c in dw for x in [k] * c) != sorted(durs_w) or sorted(x for k, c in dt for x in [k] * c) != sorted(durs_t):
            probs.append({'kind': 'model-vs-spec', 'cfg': '-', 'finding': None, 'what': 'online counter != events of the realised chain'})
        for name, d, durs in (('wt', dw, durs_w), ('tt', dt, durs_t)):
            exp = sorted(x * lag for x in durs)
            got = r[name + '_list']
            if isinstance(got, dict):
                if durs:
                    P('impl-vs-spec', '%s list raised %s, expected %s' % (name, got['err'], C.short(exp, 80)))
            else:
                if sorted(got) != exp:
                    P('impl-vs-spec', '%s times %s are not the event durations of the chain x lag %s' % (name, C.short(sorted(got), 100), C.short(exp, 100)))
                elif got != exp:
                    P('impl-vs-spec', '%s list is not in ascending order: %s' % (name, C.short(got, 100)), 'msm-times-unsorted')
            h = r[name + '_hist']
            if not d:
                continue        # no event: max() of an empty dict raises; the property fixes nothing
            if isinstance(h, dict) and 'err' in h:
                P('impl-vs-spec', '%s histogram raised %s' % (name, h['err']))
                continue
            # the model counts in unary naturals: for the 1e6-frame lag the histogram is evaluated
            # at lag 1 and rescaled here (edges x lag, density / lag; cf. edges_multiples, bin_k_fraction)
            mlag = 1 if lag > 20 else lag
            ans = C.Reader(C.mrun([[802, len(d)] + [x for kc in d for x in kc] + [mlag]])[0])
            pts, dens, edges = ans.Zs(), ans.Qs(), ans.Zs()
            if mlag != lag:
                dens, edges = [x / lag for x in dens], [e * lag for e in edges]
            if h['edges'] != edges:
                P('impl-vs-spec', '%s edges %s, expected consecutive multiples of the lag %s' % (name, h['edges'][:6], edges[:6]))
            elif len(h['dens']) != len(dens) or any(not C.frac_close(float.fromhex(a), b, Fraction(1, 10**12)) for a, b in zip(h['dens'], dens)):
                P('impl-vs-spec', '%s density differs from count_k/(total*lag)' % name)
        if r['paths'] != r['paths_ref']:
            P('impl-vs-spec', 'msm.estimate_paths %s is not the md pathway extraction of the chain from the same generator state %s' % (
                C.short(r['paths'], 100), C.short(r['paths_ref'], 100)))
    return probs


def nontrivial(case, ibc):
    r = next(iter(ibc.values()))
    if case['mal'] or not isinstance(r.get('wt_list'), list):
        return False
    if case.get('rle'):
        outside = any(a not in case['S'] and a not in case['F'] for t in case['rle'] for a, _ in t)
    else:
        outside = any(v not in case['S'] and v not in case['F'] for t in case['trajs'] for v in t)
    return len(r['wt_list']) >= 1 and outside


def describe(case, ibc):
    r = next(iter(ibc.values()))
    wl = r.get('wt_list')
    return ['alphabet:' + case['alpha'], 'lag:%d' % case['lag'], 'steps:%d' % case['steps'], 'malformed:%s' % case['mal'],
            'events:' + ('err' if isinstance(wl, dict) else '0' if not wl else '1-9' if len(wl) < 10 else '>=10')]
