# -*- coding: utf-8 -*-
"""C11 - trajectories are independent pieces in every analysis."""
import itertools
from fractions import Fraction

import common as C
import gen as G

PROP = 'C11'
THEOREMS = ['counts_app', 'counts_perm', 'counts_cut_thm', 'coring_map', 'coring_app', 'wt_concat_map',
            'paths_concat_map']
CONFIGS = [dict(jit=True)]
CONFIGS_THOROUGH = [dict(jit=True), dict(jit=False)]
RULE = ('random sets of 1..6 trajectories of mutually different lengths (including length 1 and below '
        'the lag); for each set the implementation is run on the set, on a permutation, on every single '
        'trajectory and on a cut of one trajectory; thorough: all permutations for <= 4 trajectories and '
        'all cut positions. Checked: T / implied timescales / CK curves invariant under permutation '
        '(T and others within 1e-12); cored trajectories, waiting times and pathway events are the '
        'concatenation of the per-trajectory results and permute accordingly; T of the set and of the cut '
        'set equal the exact model (count matrices differ exactly by the straddling pairs). '
        'Non-trivial: >= 2 trajectories of different lengths.'
        ' Added classes: arrays of different integer widths with > 128 states, lumped objects under reordering (reference curves = those of the plain macro trajectories), one StateTraj object shared by a sequence of analyses (coring first), > 256 trajectories / zero-length members / > 64 states, a trajectory of > 2^16 frames cut at 65536/65537.'
        ' Later: implied-timescale rows for lag lists in any order, the junction scenario for the sampling chain, equal-length sets also as one 2-d array, length sets whose first length is their mean.'
        ' Fifth/sixth batch: one trajectory vs the same plus a piece of lag frames, views of one buffer in permuted order, one narrow type with many states.')
TRUSTED = ['float comparison of aggregated outputs at 1e-12']
ASSUMPTIONS = ['labels within +-2^29']
BATCH = 150


def gen(rng, tier):
    n = G.budget(160) if tier == 'quick' else 4000
    for _ in range(n):
        labs, akind = G.alphabet(rng, k=rng.randint(2, 4))
        lag = rng.choice([1, 1, 2, 3])
        nt = rng.choice([1, 2, 3, 3, 4, 6])
        lens = rng.sample([1, 2, lag, lag + 1, 3, 5, 7, 9, 12, 17, 23, 31], nt)
        if nt >= 3 and rng.random() < 0.2:       # unequal lengths whose first one is their mean
            m = rng.randint(3, 12)
            d = [rng.randint(1, m - 1) for _ in range((nt - 1) // 2)]
            rest = [m + x for x in d] + [m - x for x in d] + ([m] if (nt - 1) % 2 else [])
            rng.shuffle(rest)
            lens = [m] + rest
        trajs = [G.traj(rng, labs, L, sticky=rng.choice([0.3, 0.6, 0.8])) for L in lens]
        present = sorted({v for t in trajs for v in t})
        if len(present) < 2:
            continue
        S, F = [present[0]], [present[-1]]
        perm = list(range(nt))
        rng.shuffle(perm)
        k = max(range(nt), key=lambda i: len(trajs[i]))
        cut = rng.randint(0, len(trajs[k]))
        yield {'trajs': trajs, 'lag': lag, 'S': S, 'F': F, 'perm': perm, 'cut': [k, cut], 'alpha': akind}
    for _ in range(G.budget(8) if tier == 'quick' else 200):       # arrays of different integer widths, narrow first, > 128 states
        trajs, dtypes, tag = G.narrow_set(rng, rng.choice(['many-mixed', 'many-unsigned', 'narrow-many', 'narrow-many', 'full-range']))
        while len(trajs) < 3:                                  # the scenario below is written for three trajectories
            trajs.append(list(trajs[0][len(trajs) * 7:len(trajs) * 7 + 60]))
            dtypes.append(dtypes[0])
        trajs, dtypes = trajs[:3], dtypes[:3]
        yield {'trajs': trajs, 'lag': rng.choice([1, 2]), 'S': [trajs[0][0]], 'F': [trajs[1][0] if trajs[1][0] != trajs[0][0] else trajs[1][1]],
               'perm': [1, 0, 2], 'cut': [1, len(trajs[1]) // 2], 'alpha': tag, 'dtypes': dtypes, 'light': True}
    for _ in range(G.budget(6) if tier == 'quick' else 120):      # several hundred trajectories / zero-length members / many states
        trajs, tag = G.size_classes(rng, lag=2, sticky=0.7)
        while tag == 'long':
            trajs, tag = G.size_classes(rng, lag=2, sticky=0.7)
        present = sorted({v for t in trajs for v in t})
        if len(present) < 2:
            continue
        nt = len(trajs)
        perm = list(range(nt))
        rng.shuffle(perm)
        k = max(range(nt), key=lambda i: len(trajs[i]))
        yield {'trajs': trajs, 'lag': rng.choice([1, 2, 3]), 'S': [present[0]], 'F': [present[-1]], 'perm': perm,
               'cut': [k, rng.randint(0, len(trajs[k]))], 'alpha': 'size-' + tag, 'light': True, 'nosingle': True}
    for _ in range(6 if tier == 'quick' else 100):      # equally long (also one-frame) trajectories
        labs, akind = G.alphabet(rng, k=rng.randint(2, 3))
        L = rng.choice([1, 1, 2, 3, 6])
        nt = rng.randint(2, 6)
        trajs = [[rng.choice(labs) for _ in range(L)] for _ in range(nt)]
        present = sorted({v for t in trajs for v in t})
        if len(present) < 2:
            continue
        perm = list(range(nt))
        rng.shuffle(perm)
        yield {'trajs': trajs, 'lag': 1, 'S': [present[0]], 'F': [present[-1]], 'perm': perm, 'cut': [0, rng.randint(0, L)], 'alpha': akind + '+equal', 'light': True}
    for _ in range(4 if tier == 'quick' else 60):
        # the chain used for sampling: two trajectories whose junction pair x>z occurs nowhere inside them
        from props import c18
        trajs, labs, akind = c18._junction(rng)
        yield {'trajs': trajs, 'lag': 1, 'S': [labs[0]], 'F': [labs[2]], 'perm': [1, 0], 'cut': [0, len(trajs[0]) // 2],
               'alpha': akind + '+junction', 'light': True, 'junction': [labs[0], labs[2]], 'seed': rng.randrange(10**6)}
    for _ in range(1 if tier == 'quick' else 4):      # a trajectory of more than 2^16 frames
        labs, akind = G.alphabet(rng, k=3)
        long_t = G.traj(rng, labs, rng.randint(66000, 70000), sticky=0.7)
        short = G.traj(rng, labs, 9, sticky=0.5)
        yield {'trajs': [short, long_t], 'lag': rng.choice([2, 3, 5]), 'S': [labs[0]], 'F': [labs[2]], 'perm': [1, 0],
               'cut': [1, rng.choice([65536, 65537, 40000])], 'alpha': akind + '+long', 'light': True}
    if tier == 'thorough':
        base = [[0, 0, 1, 2, 1, 1], [2, 2, 0], [1], [0, 1, 0, 2, 2, 2, 1, 0]]
        for nt in (2, 3, 4):
            for perm in itertools.permutations(range(nt)):
                for cut in range(0, 9):
                    yield {'trajs': base[:nt] if nt < 4 else base, 'lag': 2, 'S': [0], 'F': [2], 'perm': list(perm),
                           'cut': [nt - 1 if nt == 4 else 0, min(cut, len((base[:nt])[nt - 1 if nt == 4 else 0]))],
                           'alpha': 'enum'}
        yield 'EXHAUSTIVE'


def corpus():
    return [{'trajs': [[0, 0, 1, 1, 0, 0, 0, 1], [1], [1, 1, 0, 0, 0]], 'lag': 2, 'S': [0], 'F': [1],
             'perm': [2, 0, 1], 'cut': [0, 3], 'alpha': 'corpus'},
            {'trajs': [[1, 2, 3, 1, 2], [2, 2, 3, 1, 2, 2, 3]], 'lag': 1, 'S': [1], 'F': [3], 'perm': [1, 0],
             'cut': [1, 4], 'alpha': 'corpus'}]


def _cutset(case):
    k, c = case['cut']
    t = case['trajs'][k]
    pieces = [p for p in (t[:c], t[c:]) if p]
    return case['trajs'][:k] + pieces + case['trajs'][k + 1:]


def _cutidx(case):
    k, c = case['cut']
    t = case['trajs'][k]
    npieces = len([p for p in (t[:c], t[c:]) if p])
    return list(range(k)) + [k] * npieces + list(range(k + 1, len(case['trajs'])))


def impl(case):
    import numpy as np
    from analyses import battery
    from implutil import DTYPES
    dts = case.get('dtypes')

    def A(ts, idx=None):
        if not dts:
            return [np.array(t, dtype=np.int64) for t in ts]
        idx = idx if idx is not None else range(len(ts))
        return [np.array(t, dtype=DTYPES[dts[i % len(dts)]]) for t, i in zip(ts, idx)]
    trajs = case['trajs']
    W = ['emm', 'coring', 'wt', 'paths'] if case.get('light') else None
    out = {'base': battery(A(trajs), case['lag'], case['S'], case['F'], which=W),
           'perm': battery(A([trajs[i] for i in case['perm']], case['perm']), case['lag'], case['S'], case['F'], which=W),
           'cut': battery(A(_cutset(case), _cutidx(case)), case['lag'], case['S'], case['F'], which=['emm']),
           'single': [battery(A([t], [i]), case['lag'], case['S'], case['F'], which=['coring', 'wt', 'paths'])
                      for i, t in enumerate(trajs)] if len(trajs) <= 12 else None}
    if not dts and 2 <= len(trajs) <= 12 and all(len(t) for t in trajs):
        # the reordered set once more, now as VIEWS of one buffer that holds the trajectories in their original order
        # (pieces of a cut trajectory, rows of a table): the order of the list counts, not the order in memory
        base = np.concatenate([np.array(t, dtype=np.int64) for t in trajs])
        offs = np.cumsum([0] + [len(t) for t in trajs])
        views = [base[offs[i]:offs[i + 1]] for i in range(len(trajs))]
        out['views_perm'] = battery([views[i] for i in case['perm']], case['lag'], case['S'], case['F'], which=['emm', 'coring'])
    if len(trajs) <= 12:
        # a set of ONE trajectory against the same trajectory plus its first `lag` frames as a second piece: the extra
        # piece holds no frame pair and no new label, so the two models are the same (single- and multi-trajectory routes)
        lag = case['lag']
        out['single_emm'] = [[battery(A([t], [i]), lag, case['S'], case['F'], which=['emm'])['emm'],
                              battery(A([t, t[:lag]], [i, i]), lag, case['S'], case['F'], which=['emm'])['emm']]
                             for i, t in enumerate(trajs) if len(t) >= 1]
    if len({len(t) for t in trajs}) == 1 and len(trajs) >= 2 and len(trajs[0]) >= 1 and not dts:
        # the same set as ONE 2-d array (one row per trajectory): still that many independent pieces
        out['as2d'] = battery(np.array(trajs, dtype=np.int64), case['lag'], case['S'], case['F'], which=['emm'])['emm']
    if case.get('junction'):
        # sampling treats the trajectories as independent pieces too: after the SAME frames were sampled as one
        # joined trajectory, the chain for the two pieces never takes the step seen only across their boundary
        import msmhelper as mh
        from msmhelper.msm import timescales as ts
        from props import c18
        x, z = case['junction']
        if c18._seed_numba is None:
            c18.impl_init()
        c18._reseed(case['seed'])
        ts.propagate_MCMC([np.concatenate(A(trajs))], 1, 50)
        c18._reseed(case['seed'])
        chain = [int(v) for v in ts.propagate_MCMC(A(trajs), 1, 4000)]
        out['junction_step'] = any(a == x and b == z for a, b in zip(chain, chain[1:]))
    # one StateTraj object shared by a sequence of analyses (coring first): later results on the same
    # object must still be those of the original trajectories
    import msmhelper as mh
    shared = mh.StateTraj(A(trajs))
    out['objseq'] = battery(shared, case['lag'], case['S'], case['F'], which=['coring', 'emm', 'wt', 'paths', 'coring'])
    out['objseq']['emm2'] = battery(shared, case['lag'], case['S'], case['F'], which=['emm'])['emm']
    if not case.get('light'):
        # every row of implied_timescales belongs to its own lag: lag lists in any order (a lag longer than some
        # trajectories listed BEFORE a shorter one) give the rows of the single-lag calls
        import numpy as _np
        lens = sorted(len(t) for t in trajs)
        l_big = max(2, lens[0] if len(lens) > 1 else 3)
        l_small = 1
        def its(lags):
            try:
                return [['nan' if _np.isnan(x) else float(x).hex() for x in row] for row in _np.asarray(mh.msm.implied_timescales(A(trajs), lags), dtype=float)]
            except Exception as exc:  # noqa
                return 'err:' + type(exc).__name__
        both, one_b, one_s = its([l_big, l_small]), its([l_big]), its([l_small])
        out['its_order'] = {'both': both, 'single': [one_b[0] if isinstance(one_b, list) else one_b, one_s[0] if isinstance(one_s, list) else one_s]}
    present = sorted({v for t in trajs for v in t})
    if len(trajs) >= 2 and len(present) >= 3 and not case.get('light'):
        # lumped objects: the same set in both orders, and the macrostate trajectories passed plainly
        import msmhelper as mh
        f = {v: 500 + (i * 2) // len(present) for i, v in enumerate(present)}
        M = lambda ts: [np.array([f[v] for v in t]) for t in ts]  # noqa
        pt = [trajs[i] for i in case['perm']]
        out['lumped'] = {
            'base': battery(mh.LumpedStateTraj(M(trajs), A(trajs)), case['lag'], case['S'], case['F'], which=['emm', 'its', 'ck']),
            'perm': battery(mh.LumpedStateTraj(M(pt), A(pt, case['perm'])), case['lag'], case['S'], case['F'], which=['emm', 'its', 'ck']),
            'macro': battery(M(trajs), case['lag'], case['S'], case['F'], which=['ck'])}
    return out


def requests(case):
    return [[C.emm_entry(case['trajs'])] + C.enested(case['trajs']) + [case['lag']],
            [C.emm_entry(case['trajs'])] + C.enested(_cutset(case)) + [case['lag']]]


def _close(a, b, tol=1e-12):
    if a == b:
        return True
    if isinstance(a, dict) and isinstance(b, dict):
        return a.keys() == b.keys() and all(_close(a[k], b[k], tol) for k in a)
    if isinstance(a, list) and isinstance(b, list):
        return len(a) == len(b) and all(_close(x, y, tol) for x, y in zip(a, b))
    if isinstance(a, str) and isinstance(b, str) and a != 'nan' and b != 'nan':
        try:
            return abs(float.fromhex(a) - float.fromhex(b)) <= tol
        except ValueError:
            return False
    return False


def judge(case, ibc, answers):
    from props import c01
    probs = []
    for cfg, r in ibc.items():
        def P(kind, what):
            probs.append({'kind': kind, 'cfg': cfg, 'what': what, 'finding': None})
        if 'err' in r:
            P('impl-vs-spec', 'harness call failed: %s %s' % (r['err'], r.get('msg')))
            continue
        b, p = r['base'], r['perm']
        # aggregated outputs: invariant under reordering
        if b['emm'] != p['emm']:
            P('impl-vs-spec', 'T/states change when the trajectories are reordered')
        for name in ('its', 'ck'):
            if name not in b:
                continue
            if not _close(b[name], p[name]):
                P('impl-vs-spec', '%s changes when the trajectories are reordered: %s vs %s' % (
                    name, C.short(b[name], 120), C.short(p[name], 120)))
        if 'as2d' in r and r['as2d'] != b['emm']:
            P('impl-vs-spec', 'the set passed as a 2-d array (one row per trajectory) gives %s, as a list of trajectories %s' % (C.short(r['as2d'], 100), C.short(b['emm'], 100)))
        if r.get('junction_step'):
            P('impl-vs-spec', 'the sampled chain of the two trajectories takes the step %s>%s that occurs only across their boundary '
              '(after the joined frames had been sampled)' % tuple(case['junction']))
        io = r.get('its_order')
        if io and isinstance(io['both'], list) and all(isinstance(x, list) for x in io['single']) and not _close(io['both'], io['single']):
            P('impl-vs-spec', 'implied_timescales for the lag list [long, short] %s differs from the rows of the single-lag calls %s' % (
                C.short(io['both'], 100), C.short(io['single'], 100)))
        osq = r.get('objseq')
        if osq:
            for name in ('emm', 'wt', 'paths', 'coring'):
                if osq[name] != b[name]:
                    P('impl-vs-spec', 'shared StateTraj object, after a coring call: %s %s differs from the result on the trajectories %s' % (
                        name, C.short(osq[name], 110), C.short(b[name], 110)))
            if osq['emm2'] != b['emm']:
                P('impl-vs-spec', 'shared StateTraj object: T changes after coring / waiting-time calls on the same object')
        lu = r.get('lumped')
        if lu:
            for name in ('emm', 'its', 'ck'):
                if not _close(lu['base'][name], lu['perm'][name]):
                    P('impl-vs-spec', 'lumped object: %s changes when the trajectories are reordered: %s vs %s' % (
                        name, C.short(lu['base'][name], 120), C.short(lu['perm'][name], 120)))
            lck, mck = lu['base']['ck'], lu['macro']['ck']
            if 'err' not in lck and 'err' not in mck and not _close(lck.get('md'), mck.get('md')):
                P('impl-vs-spec', 'lumped object: reference curves %s are not those of the macrostate trajectories '
                  'taken as independent pieces %s' % (C.short(lck.get('md'), 120), C.short(mck.get('md'), 120)))
        # per-trajectory outputs: concatenation of the single-trajectory results
        singles = r['single']
        has_single = singles is not None
        if singles is None:
            singles = []
        if not has_single:
            pass
        elif all('err' not in s['coring'] for s in singles):
            exp = [s['coring']['trajs'][0] for s in singles]
            if b['coring'].get('trajs') != exp:
                P('impl-vs-spec', 'coring of the set %s != per-trajectory coring %s' % (C.short(b['coring'], 120), C.short(exp, 120)))
            if p['coring'].get('trajs') != [exp[i] for i in case['perm']]:
                P('impl-vs-spec', 'coring does not permute with the trajectories')
        elif 'err' not in b['coring']:
            P('impl-vs-spec', 'coring of the set succeeded although a single trajectory has no core')

        def ok_single(s, name):
            # a single trajectory may lack the basin states: that call is rejected, contributes nothing
            return s[name].get('v' if name == 'wt' else 'd') if 'err' not in s[name] else None
        if has_single and 'err' not in b['wt']:
            exp, complete = [], True
            for t, s in zip(case['trajs'], singles):
                if 'err' in s['wt']:
                    if set(case['S']) <= set(t) and set(case['F']) <= set(t):
                        complete = False
                    continue
                exp += s['wt']['v']
            # trajectories lacking a basin state are rejected alone; in the set they contribute their events
            full = all('err' not in s['wt'] for s in singles)
            if full and b['wt']['v'] != exp:
                P('impl-vs-spec', 'waiting times of the set %s != concatenation of per-trajectory lists %s' % (b['wt']['v'], exp))
            if full:
                expp = []
                for i in case['perm']:
                    expp += singles[i]['wt']['v']
                if p['wt'].get('v') != expp:
                    P('impl-vs-spec', 'waiting times do not permute with the trajectories')
                merged = {}
                for s in singles:
                    for k, vs in s['paths']['d']:
                        merged.setdefault(tuple(k), []).extend(vs)
                if b['paths'].get('d') != sorted([list(k), vs] for k, vs in merged.items()):
                    P('impl-vs-spec', 'pathway dictionary of the set is not the merge of the per-trajectory dictionaries')
        vp_ = r.get('views_perm')
        if vp_:
            for name in ('emm', 'coring'):
                if name in p and vp_[name] != p[name]:
                    P('impl-vs-spec', 'the reordered set passed as views of one buffer (memory order = original order) gives another %s than the same '
                      'trajectories as separate arrays: %s vs %s' % (name, C.short(vp_[name], 110), C.short(p[name], 110)))
        for a, b2 in r.get('single_emm') or []:
            if not _close(a, b2):
                P('impl-vs-spec', 'the model of ONE trajectory changes when its first lag frames are added as a second trajectory (no pairs, no new labels): %s vs %s' % (
                    C.short(a, 120), C.short(b2, 120)))
        # model comparison for the set and the cut set
        for tag, ans, rr in (('set', answers[0], b['emm']), ('cut set', answers[1], r['cut']['emm'])):
            model, st, Cm = c01.decode(ans)
            if 'err' in rr or rr['st'] != st or not C.hexes_close(rr['T'], c01.expected_T(Cm)):
                P('impl-vs-spec', 'T of the %s differs from the row-normalised in-trajectory counts' % tag)
        # counts differ exactly by the straddling pairs
        _, st0, C0 = c01.decode(answers[0])
        _, st1, C1 = c01.decode(answers[1])
        if st0 == st1:
            k, c = case['cut']
            L, lag = len(case['trajs'][k]), case['lag']
            strad = sum(1 for i in range(L - lag) if i < c <= i + lag) if 0 < c < L else 0
            diff = sum(map(sum, C0)) - sum(map(sum, C1))
            neg = any(a < b for ra, rb in zip(C0, C1) for a, b in zip(ra, rb))
            if diff != strad or neg:
                probs.append({'kind': 'model-vs-spec', 'cfg': '-', 'finding': None,
                              'what': 'cut removes %d pairs, expected %d straddling pairs' % (diff, strad)})
    return probs


def nontrivial(case, ibc):
    return len({len(t) for t in case['trajs']}) >= 2


def describe(case, ibc):
    return ['ntraj:%d' % len(case['trajs']), 'lag:%d' % case['lag'], 'alphabet:' + case['alpha'],
            'short:%s' % any(len(t) <= case['lag'] for t in case['trajs'])]
