# -*- coding: utf-8 -*-
"""C20 - smoothing filters."""
import math
from fractions import Fraction

import common as C
import gen as G

PROP = 'C20'
THEOREMS = ['gfilt_length_thm', 'gfilt_linear_thm', 'gfilt_const_thm', 'gfilt_bounds_thm', 'gfilt_reverse_thm',
            'gfilt2d_columnwise', 'rm_length', 'rm_eq_window', 'rm_w1_id']
CONFIGS = [dict(jit=True)]
RULE = ('random real series and tables (1..500 rows, 1..6 columns; also a single row), sigma in (0, 50], all '
        'running-mean windows 1..n (odd and even, also > 32), plus 3-d input. The Gaussian weights are '
        'computed by the harness (exp(-k^2/2 sigma^2), radius int(4 sigma + 0.5), normalised), checked '
        '(odd length, non-negative, symmetric, sum 1 within 1e-12) and sent with the data; output compared '
        'with the exact model filter column by column within 1e-9 max|x|; shape preserved; running mean '
        'against the exact windowed mean (1e-12 max|x|). Non-trivial: >= 2 columns or a kernel that '
        'reaches both boundaries.'
        ' Added classes: kernel widths around the radius steps (0.125, 0.375, 0.625), bool/int8/uint8/int16/float32/list series, tiny units (1e-9), large offsets (5e3..3e7) and 1e12 scales with a tolerance relative to the data, strided and Fortran-ordered inputs.'
        ' Later: widths 1.125 .. 3.125 (round-half ties), float16 / longdouble series, entries dwarfing the rest of a series (per-window tolerance), arrays with singleton axes (rejected).')
TRUSTED = ['that SciPy\'s kernel is the truncated normalised Gaussian is validated numerically, not proved; exp is libm']
ASSUMPTIONS = []
BATCH = 60


def gen(rng, tier):
    n = G.budget(120) if tier == 'quick' else 1500
    for _ in range(n):
        kind = rng.choice(['gauss1', 'gauss2', 'gauss2', 'rmean', 'rmean'])
        nr = rng.choice([1, 2, 3, 5, 10, 40, 120] if tier == 'quick' else [1, 2, 3, 10, 40, 120, 500])
        nc = rng.randint(1, 6)
        vals = lambda: round(rng.uniform(-50, 50), rng.choice([0, 1, 3]))  # noqa
        if kind == 'gauss1':
            yield {'k': kind, 'x': [vals() for _ in range(nr)], 'sigma': rng.choice([0.1, 0.5, 1.0, 2.0, 3.7, 10.0, 50.0])}
        elif kind == 'gauss2':
            yield {'k': kind, 'x': [[vals() for _ in range(nc)] for _ in range(nr)], 'sigma': rng.choice([0.3, 1.0, 2.0, 5.5, 20.0])}
        else:
            nr = max(nr, rng.choice([1, 5, 40, 70]))
            w = min(nr, rng.choice([1, 2, 3, 4, 5, nr, max(1, nr - 1), rng.randint(1, nr), 34, 40, 33]))
            yield {'k': kind, 'x': [vals() for _ in range(nr)], 'w': w, 'which': rng.choice(['filtering', 'utils'])}
    for _ in range(G.budget(60) if tier == 'quick' else 600):
        # narrow kernels (radius 0 / 1 / 2 around sigma = 0.125, 0.375, 0.625) and typed integer / boolean series
        kind = rng.choice(['gauss1', 'gauss2', 'rmean', 'rmean'])
        dtype = rng.choice(['bool', 'int8', 'int8', 'uint8', 'int16', 'float32', 'list', 'int64', 'float16', 'longdouble'])
        nr = rng.choice([2, 3, 7, 30, 90])
        nc = rng.randint(1, 4)

        def val():
            if dtype == 'bool':
                return int(rng.random() < 0.6)
            if dtype == 'int8':
                return rng.choice([rng.randint(-128, 127), rng.randint(90, 127), rng.randint(-128, -100)])
            if dtype == 'uint8':
                return rng.randint(0, 255)
            if dtype == 'int16':
                return rng.choice([rng.randint(-32768, 32767), rng.randint(30000, 32767)])
            if dtype in ('float32', 'float16', 'longdouble'):
                return rng.randint(-2000, 2000) / 16.0
            return rng.randint(-50, 50)
        unit = rng.choice([None, None, 'tiny', 'offset', 'huge'])
        if unit and dtype in ('float32', 'list', 'int64') and kind != 'rmean':
            base_val = val
            off = rng.choice([5000.0, 1e6, -3e7])

            def val(base_val=base_val, unit=unit, off=off):      # noqa: F811
                v = float(base_val())
                # tiny: everything within 1e-8 of zero; offset: fluctuation of relative size 1e-6 on a large offset
                return v * 1e-11 if unit == 'tiny' else off * (1 + v * 2e-8) if unit == 'offset' else v * 1e12
            dtype = 'float64'
        sigma = rng.choice([0.05, 0.12, 0.125, 0.126, 0.13, 0.15, 0.19, 0.2, 0.22, 0.2499, 0.25, 0.26, 0.3, 0.374, 0.375, 0.4,
                            0.62, 0.625, 0.63, 0.9, 1.125, 1.625, 2.125, 2.625, 3.125, round(rng.uniform(0.05, 0.7), 4)])
        if kind == 'rmean' and dtype in ('int64', 'list') and rng.random() < 0.4:
            xs = [float(val()) for _ in range(nr)]
            for _k in range(rng.randint(1, 2)):
                xs[rng.randrange(nr)] = rng.choice([3e17, -1e15, 7e12, 2e9])      # a few entries dwarf the rest
            yield {'k': kind, 'x': xs, 'w': rng.randint(1, min(nr, 40)), 'which': rng.choice(['filtering', 'utils']), 'dtype': 'float64'}
            continue
        if kind == 'gauss1':
            yield {'k': kind, 'x': [val() for _ in range(nr)], 'sigma': sigma, 'dtype': dtype}
        elif kind == 'gauss2':
            yield {'k': kind, 'x': [[val() for _ in range(nc)] for _ in range(nr)], 'sigma': sigma, 'dtype': dtype}
        else:
            yield {'k': kind, 'x': [val() for _ in range(nr)], 'w': rng.randint(1, min(nr, 40)), 'which': rng.choice(['filtering', 'utils']), 'dtype': dtype}
    for _ in range(6 if tier == 'quick' else 100):       # a few entries dwarf the rest of the series (running mean, both implementations)
        nr = rng.choice([12, 40, 90])
        xs = [float(rng.randint(-50, 50)) for _ in range(nr)]
        xs[rng.randrange(nr // 2)] = rng.choice([3e17, -1e15, 7e12, 2e9])
        for which in ('filtering', 'utils'):
            yield {'k': 'rmean', 'x': xs, 'w': rng.randint(1, min(nr, 12)), 'which': which, 'dtype': 'float64'}
    for _ in range(3):
        yield {'k': 'gauss3d', 'x': [[[1.0, 2.0], [3.0, 4.0]], [[5.0, 6.0], [7.0, 8.0]]], 'sigma': 1.0}
        # more than two dimensions also when some axes have length one
        shape = rng.choice([(5, 3, 1), (5, 1, 3), (1, 5, 3), (5, 3, 1, 1), (4, 1, 1), (1, 1, 6)])
        flat = [float(rng.randint(-9, 9)) for _ in range(100)]

        def nest(sh, it):
            return [nest(sh[1:], it) for _ in range(sh[0])] if len(sh) > 1 else [next(it) for _ in range(sh[0])]
        yield {'k': 'gauss3d', 'x': nest(shape, iter(flat)), 'sigma': rng.choice([0.5, 1.0, 3.0])}
        yield {'k': 'rmean2d', 'x': [[1.0, 2.0], [3.0, 4.0]], 'w': 1, 'which': 'filtering'}


def corpus():
    return [{'k': 'gauss2', 'x': [[0.0, 10.0, -3.0, 7.0]], 'sigma': 0.5},
            {'k': 'rmean', 'x': [float(i % 7) for i in range(50)], 'w': 34, 'which': 'filtering'},
            {'k': 'rmean', 'x': [float(i % 7) for i in range(50)], 'w': 40, 'which': 'utils'}]


def impl(case):
    import numpy as np
    import msmhelper as mh
    from implutil import canon
    dt = case.get('dtype')
    if dt == 'list':
        x = [list(r) if isinstance(r, list) else r for r in case['x']]
        before = [list(r) if isinstance(r, list) else r for r in x]
    else:
        x = np.array(case['x'], dtype={None: float, 'bool': bool, 'float32': np.float32, 'float64': np.float64, 'float16': np.float16, 'longdouble': np.longdouble}.get(dt, dt))
        before = x.copy()
    if case['k'].startswith('gauss'):
        r = mh.utils.filtering.gaussian_filter(x, case['sigma'])
    else:
        f = mh.utils.filtering.runningmean if case['which'] == 'filtering' else mh.utils.runningmean
        r = f(x, case['w'])
    out = {'ok': canon(np.asarray(r)), 'intact': bool(np.array_equal(before, x)) and (dt == 'list' or x.dtype == before.dtype)}
    if dt != 'list' and isinstance(x, np.ndarray) and x.ndim in (1, 2) and x.size:
        # the same values in other memory layouts (strided view / Fortran order) give the same result
        if x.ndim == 2:
            from implutil import alt_layouts
            alts = alt_layouts(x)
        else:
            big = np.zeros(3 * len(x), dtype=x.dtype)
            big[1::3] = x
            alts = {'strided': big[1::3], 'reversed-view': x[::-1].copy()[::-1]}
        diff = []
        for lname, A in alts.items():
            keep = A.copy()
            try:
                rr = mh.utils.filtering.gaussian_filter(A, case['sigma']) if case['k'].startswith('gauss') else f(A, case['w'])
                if canon(np.ascontiguousarray(rr)) != canon(np.ascontiguousarray(r)):
                    diff.append('%s input gives another result' % lname)
            except Exception as exc:  # noqa
                diff.append('%s input raises %s' % (lname, type(exc).__name__))
            if not np.array_equal(keep, A):
                diff.append('%s input was modified' % lname)
        out['layout_diff'] = diff
    return out


def requests(case):
    return []


def weights(sigma):
    radius = int(4.0 * sigma + 0.5)
    w = [math.exp(-0.5 * (k / sigma) ** 2) for k in range(-radius, radius + 1)]
    s = sum(w)
    return [v / s for v in w]


def judge(case, ibc, answers):
    probs = []
    for cfg, r in ibc.items():
        def P(kind, what):
            probs.append({'kind': kind, 'cfg': cfg, 'what': what, 'finding': None})
        if case['k'] in ('gauss3d', 'rmean2d'):
            if r.get('err') != 'ValueError':
                P('impl-vs-spec', 'input with too many dimensions not rejected with ValueError: %s' % C.short(r, 80))
            continue
        if 'err' in r:
            P('impl-vs-spec', 'raised %s (%s)' % (r['err'], r.get('msg')))
            continue
        if not r['intact']:
            P('impl-vs-spec', 'the input array was modified')
        for d in r.get('layout_diff') or []:
            P('impl-vs-spec', 'memory layout: ' + d)
        c = r['ok']
        x = case['x']
        twod = case['k'] == 'gauss2'
        shape = [len(x), len(x[0])] if twod else [len(x)]
        if c['shape'] != shape:
            P('impl-vs-spec', 'output shape %s, input shape %s' % (c['shape'], shape))
            continue
        out = [float.fromhex(v) for v in c['v']]
        flat = [abs(v) for row in (x if twod else [x]) for v in row]
        scale = max(flat) or 1.0      # the filters are linear: the tolerance scales with the data (tiny units, large offsets)
        if case['k'].startswith('gauss'):
            w = weights(case['sigma'])
            wq = [Fraction(v) for v in w]
            if len(w) % 2 != 1 or any(v < 0 for v in w) or abs(sum(wq) - 1) > Fraction(1, 10**12) or \
                    any(w[k] != w[len(w) - 1 - k] for k in range(len(w))):
                P('model-vs-spec', 'harness kernel violates the kernel hypotheses')
                continue
            cols = list(zip(*x)) if twod else [x]
            exp_cols = []
            for col in cols:
                ans = C.Reader(C.mrun([[2001] + C.eQs(wq) + C.eQs([Fraction(v) for v in col])])[0])
                exp_cols.append(ans.Qs())
            nc = len(cols)
            for i in range(len(x)):
                for j in range(nc):
                    got = out[i * nc + j] if twod else out[i]
                    if not C.frac_close(got, exp_cols[j][i], Fraction(1, 10**9) * Fraction(scale)):
                        P('impl-vs-spec', 'row %d col %d: %r, 1-d Gaussian filter of that column alone gives %.9f' % (i, j, got, float(exp_cols[j][i])))
                        break
                else:
                    continue
                break
        else:
            ans = C.Reader(C.mrun([[2003] + C.eQs([Fraction(v) for v in x]) + [case['w']]])[0])
            model, spec = ans.Qs(), ans.Qs()
            if model != spec:
                probs.append({'kind': 'model-vs-spec', 'cfg': '-', 'finding': None, 'what': 'convolution form != documented window'})
            w = case['w']
            absx = [abs(Fraction(v)) for v in x]
            for i in range(len(x)):
                # the window of entry i (documented centred window, zeros outside): the rounding error of its mean is
                # bounded relative to the magnitudes INSIDE that window, not to the largest value of the series
                lo, hi = i - w // 2, i - w // 2 + w
                local = sum(absx[max(lo, 0):max(min(hi, len(x)), 0)]) / w
                if not C.frac_close(out[i], spec[i], Fraction(1, 10**12) * max(local, Fraction(1, 10**300))):
                    P('impl-vs-spec', 'window %d, entry %d: %r, mean over the documented window %.12f' % (case['w'], i, out[i], float(spec[i])))
                    break
    return probs


def nontrivial(case, ibc):
    if case['k'] == 'gauss2':
        return len(case['x'][0]) >= 2
    if case['k'] == 'gauss1':
        return int(4 * case['sigma'] + 0.5) * 2 + 1 >= len(case['x'])
    return case['k'] == 'rmean' and case['w'] >= 2


def describe(case, ibc):
    return ['kind:' + case['k'], 'rows:%d' % (len(case['x']) if case['k'] != 'gauss3d' else 2),
            'param:%s' % (case.get('sigma') if 'sigma' in case else ('even' if case['w'] % 2 == 0 else 'odd') + ('>32' if case['w'] > 32 else ''))]
