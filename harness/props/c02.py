# -*- coding: utf-8 -*-
"""C02 - StateTraj / LumpedStateTraj are faithful, isolated views."""
import itertools

import common as C
import gen as G

PROP = 'C02'
THEOREMS = ['mk_is_spec', 'trajs_mk', 'states_mk', 'index_rank_thm', 'counters_mk', 'lumped_views_thm',
            'isolation_thm', 'rebuild_same_object']
CONFIGS = [dict(jit=True)]
RULE = ('random operation sequences (1..25 ops) on StateTraj and LumpedStateTraj objects built from '
        'all container forms / dtypes / label alphabets (0-based, 1-based, gapped, negative): reads of '
        'every accessor, in-place writes into any previously returned array and into the constructor '
        'arguments, reconstruction from the object; thorough adds all op sequences of length <= 3 over '
        'the op alphabet for one input per label branch. Compared: every read against the model of the '
        'ORIGINAL input, the alias matrix (np.shares_memory between returned arrays, constructor '
        'arguments and private slots) must be empty, StateTraj(obj) is obj. Non-trivial: the history '
        'contains a write followed by a read.'
        ' Added classes: narrow/unsigned integer arrays with > 128 states, zero-length member trajectories, other memory layouts.'
        ' Later: macro labels that are a permutation of the micro labels, the constructor called again with the existing object and other micro trajectories.')
TRUSTED = ['NumPy .copy(), arithmetic and fancy indexing allocate fresh arrays (checked by shares_memory on every run)']
ASSUMPTIONS = ['labels within +-2^29; lumpings consistent (macro label is a function of the micro label)']
BATCH = 500

PLAIN_READS = ['trajs', 'index_trajs', 'states', 'trajs_flatten', 'index_trajs_flatten', 'iter', 'getitem',
               'nstates', 'ntrajs', 'nframes', 'len', 'as_list', 'eq_self']
LUMPED_READS = PLAIN_READS + ['microstate_trajs', 'microstate_index_trajs', 'microstates', 'state_assignment',
                              'microstate_trajs_flatten', 'microstate_index_trajs_flatten', 'nmicrostates']


def _ops(rng, reads, n):
    ops = []
    for _ in range(n):
        r = rng.random()
        if r < 0.5:
            ops.append(['read', rng.choice(reads)])
        elif r < 0.75:
            ops.append(['write_ret', rng.randrange(1000), rng.randrange(1000), rng.randint(-50, 50)])
        elif r < 0.92:
            ops.append(['write_arg', rng.randrange(1000), rng.randrange(1000), rng.randint(-50, 50)])
        elif r < 0.96:
            ops.append(['rebuild'])
        else:
            ops.append(['reinit'])
    ops.append(['read', rng.choice(reads)])
    ops.append(['read', 'trajs'])
    return ops


def _case(rng, lumped, alpha_kind=None):
    labs, akind = G.alphabet(rng, k=rng.randint(2, 5), kind=alpha_kind)
    form = rng.choice(['loa', 'loa', 'lol', 'arr2', 'arr1', 'list'])
    trajs = G.trajset(rng, labs, equal=(form == 'arr2'))
    if form in ('list', 'arr1'):
        trajs = trajs[:1]
    dts = [d for d in ('int8', 'int16', 'int32', 'int64') if G.fits(trajs, d)]
    case = {'lumped': lumped, 'form': form, 'dtype': rng.choice(dts), 'trajs': trajs, 'alpha': akind}
    if lumped:
        present = sorted({v for t in trajs for v in t})
        mlabs, _ = G.alphabet(rng, k=rng.randint(1, len(present)))
        f = {a: rng.choice(mlabs) for a in present}
        if rng.random() < 0.2 and len(present) >= 2:      # macro labels = the micro labels in another order (a permutation)
            perm = present[:]
            rng.shuffle(perm)
            f = dict(zip(present, perm))
        case['macro'] = [[f[v] for v in t] for t in trajs]
    return case


def _gen0(rng, tier):
    n = G.budget(350) if tier == 'quick' else 8000
    for _ in range(n):
        lumped = rng.random() < 0.4
        case = _case(rng, lumped)
        if not lumped and rng.random() < 0.08:      # narrow / unsigned integer types, long runs, > 128 states
            trajs, dtypes, tag = G.narrow_set(rng)
            case.update({'trajs': trajs, 'form': 'loa', 'dtype': dtypes[0], 'dtypes': dtypes, 'alpha': tag})
        if case['form'] == 'loa' and rng.random() < 0.12 and not case.get('dtypes'):
            # zero-length trajectories at the front, in the middle, at the end
            pos = G.empty_positions(rng, len(case['trajs']))
            case['trajs'] = G.insert_empties(case['trajs'], pos)
            if lumped:
                case['macro'] = G.insert_empties(case['macro'], pos)
            case['alpha'] += '+empty'
        case['ops'] = _ops(rng, LUMPED_READS if lumped else PLAIN_READS, rng.randint(1, 25))
        yield case
    if tier == 'thorough':
        alphabet = ([['read', r] for r in ('trajs', 'index_trajs', 'states', 'trajs_flatten', 'getitem', 'iter')]
                    + [['write_ret', 0, 1, 9], ['write_ret', 1, 0, -3], ['write_arg', 0, 0, 7], ['rebuild']])
        for kind in ('zero', 'one', 'gapped'):
            base = _case(rng, False, kind)
            base['form'], base['dtype'] = 'loa', 'int64'
            for L in (1, 2, 3):
                for seq in itertools.product(alphabet, repeat=L):
                    c = dict(base)
                    c['ops'] = [list(o) for o in seq] + [['read', 'trajs'], ['read', 'index_trajs'], ['read', 'states']]
                    yield c
        yield 'EXHAUSTIVE'


def gen(rng, tier):
    return G.with_layouts(rng, _gen0(rng, tier), p_alt=0.15)


def corpus():
    return [
        {'lumped': False, 'form': 'loa', 'dtype': 'int64', 'trajs': [[0, 1, 2, 1], [2, 0]], 'alpha': 'corpus',
         'ops': [['read', 'trajs'], ['write_arg', 0, 1, 2], ['read', 'trajs'], ['read', 'index_trajs']]},
        {'lumped': False, 'form': 'loa', 'dtype': 'int64', 'trajs': [[-1, 1, 2, 1], [2, -1]], 'alpha': 'corpus',
         'ops': [['read', 'index_trajs'], ['read', 'states']]},
        {'lumped': False, 'form': 'arr2', 'dtype': 'int32', 'trajs': [[1, 2, 3], [3, 3, 1]], 'alpha': 'corpus',
         'ops': [['read', 'index_trajs'], ['write_ret', 0, 0, 2], ['write_arg', 1, 2, 2], ['read', 'trajs'], ['rebuild']]},
        {'lumped': True, 'form': 'loa', 'dtype': 'int64', 'trajs': [[4, 9, 6, 7, 4], [9, 9]], 'macro': [[1, 1, 2, 2, 1], [1, 1]],
         'alpha': 'corpus', 'ops': [['read', 'state_assignment'], ['write_ret', 0, 0, 5], ['read', 'trajs'],
                                    ['read', 'microstate_trajs'], ['read', 'state_assignment']]},
    ]


def shrink(case):
    ops = case['ops']
    for k in range(len(ops)):
        c = dict(case)
        c['ops'] = ops[:k] + ops[k + 1:]
        if c['ops']:
            yield c


def impl(case):
    import numpy as np
    import msmhelper as mh
    from implutil import build, canon
    arg = build(case['form'], case['trajs'], case.get('dtypes') or [case['dtype']], case.get('layout'))
    if case['lumped']:
        marg = build(case['form'], case['macro'], ['int64'])
        obj = mh.LumpedStateTraj(marg, arg)
    else:
        marg = None
        obj = mh.StateTraj(arg)
    returned = []      # every ndarray handed out
    reads = []

    def arrays_of(x):
        if isinstance(x, np.ndarray):
            return [x]
        if isinstance(x, (list, tuple)):
            return [a for y in x for a in arrays_of(y)]
        return []

    def arg_arrays():
        out = arrays_of(arg) if not isinstance(arg, np.ndarray) else [arg]
        if marg is not None:
            out += arrays_of(marg) if not isinstance(marg, np.ndarray) else [marg]
        return out

    for op in case['ops']:
        if op[0] == 'read':
            name = op[1]
            if name == 'iter':
                val = [t for t in obj]
            elif name == 'getitem':
                val = obj[0]
            elif name == 'len':
                val = len(obj)
            elif name == 'as_list':
                val = list(obj)
            elif name == 'eq_self':
                val = bool(obj == obj)
            else:
                val = getattr(obj, name)
            returned += arrays_of(val)
            reads.append([name, canon(val)])
        elif op[0] == 'write_ret':
            cand = [a for a in returned if a.size]
            if cand:
                a = cand[op[1] % len(cand)]
                a.reshape(-1)[op[2] % a.size] = abs(op[3]) % 100
        elif op[0] == 'write_arg':
            cand = [a for a in arg_arrays() if a.size]
            if cand:
                a = cand[op[1] % len(cand)]
                flat = a.reshape(-1)
                if np.shares_memory(flat, a):
                    flat[op[2] % a.size] = abs(op[3]) % 100
            elif isinstance(arg, list):      # python lists (of lists)
                if arg and isinstance(arg[0], list):
                    row = arg[op[1] % len(arg)]
                    row[op[2] % len(row)] = op[3]
                elif arg:
                    arg[op[2] % len(arg)] = op[3]
        elif op[0] == 'reinit':
            if case['lumped']:
                # the constructor called again with the existing object and OTHER micro trajectories hands back that object, unchanged
                other = [np.array([int(v) + 1000 for v in t]) for t in case['trajs']]
                try:
                    again = mh.LumpedStateTraj(obj, other)
                    reads.append(['reinit', {'t': 'bool', 'v': bool(again is obj)}])
                except Exception as exc:  # noqa
                    reads.append(['reinit', {'t': 'other', 'v': type(exc).__name__}])
        elif op[0] == 'rebuild':
            same = (mh.LumpedStateTraj(obj) is obj) if case['lumped'] else True
            reads.append(['rebuild', {'t': 'bool', 'v': bool(mh.StateTraj(obj) is obj and same)}])
    hook_local = None
    try:
        private = list(obj._trajs) + [obj._states]
        if case['lumped']:
            private += [obj._macrostates, obj._state_assignment]
    except AttributeError as exc:
        # the private slots the aliasing probe looks into were renamed: the probe is skipped
        # (reported once as broken correspondence), everything observable is still compared
        private, hook_local = [], 'private slot of StateTraj: %s' % str(exc)[:120]
    alias = []
    outside = returned + arg_arrays()
    for i, p in enumerate(private):
        for j, o in enumerate(outside):
            if np.shares_memory(p, o):
                alias.append(['private%d' % i, 'returned%d' % j if j < len(returned) else 'arg%d' % (j - len(returned))])
    for i in range(len(returned)):
        for j in range(i + 1, len(returned)):
            if returned[i] is not returned[j] and np.shares_memory(returned[i], returned[j]):
                alias.append(['returned%d' % i, 'returned%d' % j])
    out = {'reads': reads, 'alias': alias}
    if hook_local:
        out['hook_local'] = hook_local
    return out


def requests(case):
    if case['lumped']:
        return [[202] + C.enested(case['macro']) + C.enested(case['trajs']), [201] + C.enested(case['macro'])]
    return [[201] + C.enested(case['trajs'])]


def _dec201(ans):
    rd = C.Reader(ans)

    def enc():
        st = rd.Zs()
        idx = rd.nested()
        tr = rd.res(rd.nested)
        return {'states': st, 'index': idx, 'trajs': tr, 'ntrajs': rd.Z(), 'nframes': rd.Z(), 'nstates': rd.Z()}
    model = rd.res(enc)
    spec = enc()
    return model, spec


def _flat(ls):
    return [v for t in ls for v in t]


def _vals(c):
    """nested lists from a canonical value"""
    if c['t'] == 'arr':
        return c['v']
    if c['t'] == 'list':
        return [_vals(i) for i in c['items']]
    return c['v']


def expected(case, answers):
    if not case['lumped']:
        model, spec = _dec201(answers[0])
        e = {'trajs': case['trajs'], 'index_trajs': spec['index'], 'states': spec['states'],
             'trajs_flatten': _flat(case['trajs']), 'index_trajs_flatten': _flat(spec['index']),
             'iter': case['trajs'], 'as_list': case['trajs'], 'getitem': case['trajs'][0],
             'nstates': spec['nstates'], 'ntrajs': spec['ntrajs'], 'nframes': spec['nframes'],
             'len': spec['ntrajs'], 'eq_self': True, 'rebuild': True}
        ok = model == ('ok', dict(spec, trajs=('ok', case['trajs'])))
        return e, ok
    rd = C.Reader(answers[0])

    def enc():
        return {'macro': rd.res(rd.nested), 'micro': rd.res(rd.nested), 'assign': rd.Zs(), 'macrostates': rd.Zs(),
                'microstates': rd.Zs(), 'microidx': rd.nested(), 'macroidx': rd.res(rd.nested)}
    model = rd.res(enc)
    _, mspec = _dec201(answers[1])
    if model[0] != 'ok':
        return None, False
    m = model[1]
    f = {}
    for tM, tm in zip(case['macro'], case['trajs']):
        for a, b in zip(tM, tm):
            f[b] = a
    ok = (m['macro'] == ('ok', case['macro']) and m['micro'] == ('ok', case['trajs'])
          and m['assign'] == [f[s] for s in m['microstates']] and m['macrostates'] == mspec['states']
          and m['macroidx'] == ('ok', mspec['index']))
    e = {'trajs': case['macro'], 'index_trajs': mspec['index'], 'states': mspec['states'],
         'trajs_flatten': _flat(case['macro']), 'index_trajs_flatten': _flat(mspec['index']),
         'iter': case['macro'], 'as_list': case['macro'], 'getitem': case['macro'][0],
         'nstates': len(mspec['states']), 'ntrajs': len(case['trajs']), 'nframes': len(_flat(case['trajs'])),
         'len': len(case['trajs']), 'eq_self': True, 'rebuild': True, 'reinit': True,
         'microstate_trajs': case['trajs'], 'microstate_index_trajs': m['microidx'],
         'microstates': m['microstates'], 'state_assignment': m['assign'],
         'microstate_trajs_flatten': _flat(case['trajs']), 'microstate_index_trajs_flatten': _flat(m['microidx']),
         'nmicrostates': len(m['microstates'])}
    return e, ok


def judge(case, ibc, answers):
    probs = []
    e, ok = expected(case, answers)
    if not ok:
        probs.append({'kind': 'model-vs-spec', 'cfg': '-', 'finding': None,
                      'what': 'model of the constructor does not report the input back'})
        return probs
    for cfg, r in ibc.items():
        def P(kind, what):
            probs.append({'kind': kind, 'cfg': cfg, 'what': what, 'finding': None})
        if 'err' in r:
            P('impl-vs-spec', 'raised %s: %s' % (r['err'], r.get('msg')))
            continue
        if r.get('hook_local'):
            P('correspondence', 'instrumented private helper no longer matches: %s' % r['hook_local'])
        for k, (name, val) in enumerate(r['reads']):
            got = _vals(val)
            if got != e[name]:
                P('impl-vs-spec', 'read #%d %s = %s, but the object was built from %s' % (
                    k, name, C.short(got, 150), C.short(e[name], 150)))
                break
        if r['alias']:
            P('impl-vs-spec', 'arrays share memory: %s' % r['alias'][:4])
    return probs


def nontrivial(case, ibc):
    seen_write = False
    for op in case['ops']:
        if op[0].startswith('write'):
            seen_write = True
        elif op[0] == 'read' and seen_write:
            return True
    return False


def describe(case, ibc):
    r = next(iter(ibc.values()))
    return ['class:' + ('Lumped' if case['lumped'] else 'StateTraj'), 'form:' + case['form'] + ('/' + case['layout'] if case.get('layout') else ''), 'dtype:' + case['dtype'],
            'alphabet:' + case['alpha'], 'ops:%d' % (len(case['ops']) // 5 * 5),
            'outcome:' + ('err-' + r['err'] if 'err' in r else 'ok')]
