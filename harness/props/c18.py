# -*- coding: utf-8 -*-
"""C18 - purity and repeatability of the public API."""
import common as C
import gen as G

PROP = 'C18'
THEOREMS = ['api_frame_thm', 'api_history_frame', 'api_deterministic_thm', 'api_object_untouched']
CONFIGS = [dict(jit=True), dict(jit=False)]
RULE = ('random histories of 3..14 public calls (estimation, timescales, CK test, coring, waiting times, '
        'paths, similarity, relabelling, eigen/ergodicity tests, filtering, sampling) on SHARED arguments '
        '(list of arrays, 2-d array, StateTraj, LumpedStateTraj, float matrix, float series), with random '
        'reseeding of the Python, NumPy and numba generators between calls. Checked: byte snapshot of '
        'every shared argument (buffers, dtypes, shapes, list identity, object slots and reported '
        'trajectories) equal before/after every call; every deterministic call returns the value of its '
        'first occurrence; every randomised call, repeated from the same generator seeds, returns the '
        'same value. Non-trivial: the history repeats a deterministic call after other calls and contains '
        'a randomised call.'
        ' Added classes: returned arrays overwritten before the repeat call, Fortran-ordered / single-row tables, 120-state matrices, shared StateTraj objects in similarity and CK test, the junction scenario (the same frames joined are sampled first; the step that exists only across the boundary must never be taken afterwards).'
        ' Later: parameters handed over as arrays (lag times, basins), a row-stochastic matrix with a negative entry, a lumped object whose projection has negative entries in the sampling calls, repeated estimates on > 100000 frames in several trajectories.'
        ' Fifth/sixth batch: re-wrapping lumped objects with another `positive`, ck_test beyond the data with heap churn.')
TRUSTED = ['snapshots observe buffers through NumPy (tobytes); numba generator seeded through a jitted helper']
ASSUMPTIONS = []
BATCH = 40

DET = ['emm', 'emm_obj', 'emm_lumped', 'its', 'ck', 'coring', 'coring_obj', 'wt', 'paths', 'sim', 'shift',
       'rename_idx', 'rename_pop', 'unique', 'peq', 'is_ergodic', 'mask', 'eig', 'gauss', 'gauss2d', 'rmean',
       'rownorm', 'mpow', 'swapcols', 'swapcols_f', 'format', 'statetraj', 'peq_big', 'eig_big', 'sim_obj', 'ck_obj',
       'ck_arr', 'its_arr', 'wt_arr', 'emm_lumped2', 'rewrap', 'rewrap2', 'ck_far']
RND = ['mcmc', 'msm_wt', 'msm_tt', 'msm_paths', 'tmat', 'tmat_neg', 'msm_wt_lumped', 'msm_tt_lumped']


def gen(rng, tier):
    n = G.budget(45) if tier == 'quick' else 1500
    for _ in range(n):
        kind = rng.choice(['zero', 'zero', 'one', 'gapped', 'mixed'])
        labs, akind = G.alphabet(rng, k=rng.randint(3, 5), kind=kind)
        L = rng.randint(60, 200)
        trajs = [G.traj(rng, labs, L, sticky=rng.choice([0.6, 0.8])) for _ in range(rng.choice([1, 2, 3]))]
        present = sorted({v for t in trajs for v in t})
        if len(present) < 3:
            continue
        hist = []
        for _ in range(rng.randint(3, 14)):
            r = rng.random()
            if r < 0.7:
                hist.append(['call', rng.choice(DET)])
            elif r < 0.9:
                hist.append(['rand', rng.choice(RND), rng.randrange(10**6)])
            else:
                hist.append(['reseed', rng.randrange(10**6)])
        first = hist[0] if hist[0][0] == 'call' else ['call', rng.choice(DET)]
        hist = [first] + hist + [['rand', rng.choice(RND), rng.randrange(10**6)], first]
        yield {'trajs': trajs, 'lag': rng.choice([1, 2]), 'S': [present[0]], 'F': present[-2:], 'hist': hist,
               'tau': rng.choice([2, 3]), 'alpha': akind, 'dtype': rng.choice(['int32', 'int64'])}
    for case in gen_junction(rng, tier):
        yield case
    for case in gen_big(rng, tier):
        yield case
    for case in gen_ring(rng, tier):
        yield case


def _junction(rng):
    # two trajectories over a forward cycle x>y>z>x (no backward step inside); the first ends in x, the second
    # starts in z, so x>z exists only ACROSS the boundary: a sampler that saw the frames joined can step x>z
    labs, akind = G.alphabet(rng, k=3)
    rng.shuffle(labs)

    def part(start, end, n):
        t, cur = [], start
        while len(t) < n or cur != end:
            t.append(labs[cur])
            if rng.random() < 0.3:
                cur = (cur + 1) % 3
        return t + [labs[end]]
    return [part(1, 0, rng.randint(40, 90)), part(2, 1, rng.randint(40, 90))], labs, akind


def gen_ring(rng, tier):
    for _ in range(6 if tier == 'quick' else 100):
        k = rng.randint(5, 8)
        p = rng.choice([0.6, 0.8, 0.9])
        t = [rng.randrange(k)]
        for _i in range(rng.randint(30, 80)):
            r = rng.random()
            t.append((t[-1] + 1) % k if r < p else t[-1] if r < p + (1 - p) / 2 else (t[-1] - 1) % k)
        present = sorted(set(t))
        if len(present) < 4:
            continue
        f = {a: 3 + 2 * (i % 3) for i, a in enumerate(present)}
        trajs, labs2, akind = _junction(rng)
        hist = [['call', 'emm_ring'], ['rand', 'msm_wt_ring', rng.randrange(10**6)], ['call', 'emm_ring'],
                ['rand', 'msm_paths_ring', rng.randrange(10**6)], ['call', 'emm_ring'], ['call', 'rewrap_ring'], ['call', 'emm_ring']]
        yield {'trajs': trajs, 'lag': 1, 'S': [labs2[0]], 'F': [labs2[2]], 'hist': hist, 'tau': 2, 'alpha': akind + '+ring',
               'dtype': 'int64', 'ring': {'micro': t, 'macro': [f[v] for v in t]}}


def gen_big(rng, tier):
    for _ in range(1 if tier == 'quick' else 4):
        # 2..8 trajectories with more than 100000 frames in total (run-length encoded; runs of 1..4 frames)
        labs = [0, 1, 2]
        rle = []
        for _t in range(rng.choice([2, 4, 8])):
            n, runs = 0, []
            while n < rng.choice([50000, 60000]):
                L = rng.randint(1, 4)
                runs.append([rng.choice(labs), L])
                n += L
            rle.append(runs)
        trajs, labs2, akind = _junction(rng)
        yield {'trajs': trajs, 'lag': 1, 'S': [labs2[0]], 'F': [labs2[2]], 'hist': [['call', 'emm'], ['call', 'emm']],
               'tau': 2, 'alpha': akind + '+big', 'dtype': 'int64', 'big': rle}


def gen_junction(rng, tier):
    for _ in range(4 if tier == 'quick' else 60):
        trajs, labs, akind = _junction(rng)
        yield {'trajs': trajs, 'lag': 1, 'S': [labs[0]], 'F': [labs[2]], 'hist': [['call', 'emm'], ['rand', 'msm_wt', rng.randrange(10**6)], ['call', 'emm']],
               'tau': 2, 'alpha': akind + '+junction', 'dtype': 'int64', 'junction': [labs[0], labs[2]], 'seed': rng.randrange(10**6)}


def corpus():
    t = [0, 0, 0, 1, 1, 2, 2, 2, 1, 0, 0, 2, 2, 2, 1, 1, 1, 0, 0, 0, 2, 1, 1, 1, 2, 2, 0, 0]
    return [{'trajs': [t, t[::-1]], 'lag': 1, 'S': [0], 'F': [1, 2], 'tau': 3, 'alpha': 'corpus', 'dtype': 'int64',
             'hist': [['call', 'emm_obj'], ['call', 'coring_obj'], ['call', 'emm_obj'], ['rand', 'msm_wt', 7],
                      ['call', 'coring'], ['call', 'shift'], ['call', 'rename_pop'], ['call', 'emm_obj']]}]


def shrink(case):
    h = case['hist']
    for k in range(len(h)):
        c = dict(case)
        c['hist'] = h[:k] + h[k + 1:]
        if c['hist']:
            yield c


_seed_numba = None


def impl_init():
    global _seed_numba
    import random
    import numba
    import numpy as np

    @numba.njit
    def seed_numba(s):
        random.seed(s)
        np.random.seed(s)
    _seed_numba = seed_numba


def _reseed(s):
    import random
    import numpy as np
    random.seed(s)
    np.random.seed(s % (2**32))
    _seed_numba(s % (2**31))


def impl(case):
    import numpy as np
    import msmhelper as mh
    from analyses import _f
    from implutil import DTYPES, canon
    dt = DTYPES[case['dtype']]
    trajs = [np.array(t, dtype=dt) for t in case['trajs']]
    L = min(len(t) for t in case['trajs'])
    arr2 = np.array([t[:L] for t in case['trajs']], dtype=dt)
    obj = mh.StateTraj([np.array(t, dtype=dt) for t in case['trajs']])
    present = sorted({v for t in case['trajs'] for v in t})
    f = {v: 50 + (1 if i >= len(present) // 2 else 0) for i, v in enumerate(present)}
    lobj = mh.LumpedStateTraj([np.array([f[v] for v in t]) for t in case['trajs']], [np.array(t) for t in case['trajs']])
    f2 = {v: 60 + (i % 2) for i, v in enumerate(present)}       # a poor lumping (alternate microstates): negative projection entries are common
    lobj2 = mh.LumpedStateTraj([np.array([f2[v] for v in t]) for t in case['trajs']], [np.array(t) for t in case['trajs']])
    if case.get('ring'):      # a bad 3-state lumping of a driven ring walk: the projection usually has negative entries
        lobj3 = mh.LumpedStateTraj([np.array(case['ring']['macro'])], [np.array(case['ring']['micro'])])
    else:
        lobj3 = lobj2
    T, _ = mh.msm.estimate_markov_model([np.array(t) for t in case['trajs']], case['lag'])
    T = np.array(T)
    series = np.array([float(v) * 0.5 for v in case['trajs'][0]])
    table = np.array([[float(v), float(v * v % 7)] for v in case['trajs'][0]])
    other = [np.array([present[(present.index(v) + 1) % 2] for v in t], dtype=dt) for t in case['trajs']]
    rs = np.random.RandomState(len(case['trajs'][0]))
    Cbig = rs.randint(0, 4, size=(120, 120)) + np.eye(120, dtype=int)
    Tbig = Cbig / Cbig.sum(axis=1)[:, None]
    table_f = np.asfortranarray(np.array([[float(v), float(v * v % 7), float(v % 3)] for v in case['trajs'][0]]))
    row1 = np.array([[1.0, 2.0, 3.0]])
    oobj = mh.StateTraj([np.array(t) for t in other])
    lagarr = np.array([case['lag'] + 2, case['lag'], case['lag'] + 1])        # parameters handed over as (unsorted) arrays
    Tneg = T.copy()                                                            # row-stochastic, with one negative entry
    Tneg[0, int(np.argmax(T[0]))] += 0.05 + T[0].min()
    Tneg[0, int(np.argmin(T[0]))] -= 0.05 + T[0].min()
    Sarr, Farr = np.array(case['S']), np.array(case['F'])
    shared = {'lobj2': lobj2, 'lobj3': lobj3, 'lagarr': lagarr, 'Tneg': Tneg, 'Sarr': Sarr, 'Farr': Farr,
              'trajs': trajs, 'arr2': arr2, 'obj': obj, 'lobj': lobj, 'T': T, 'series': series, 'table': table,
              'other': other, 'S': list(case['S']), 'F': list(case['F']), 'Tbig': Tbig, 'table_f': table_f, 'row1': row1,
              'oobj': oobj}

    def snap():
        s = {}
        for k, v in shared.items():
            if isinstance(v, np.ndarray):
                s[k] = (v.tobytes(), str(v.dtype), v.shape)
            elif isinstance(v, list) and v and isinstance(v[0], np.ndarray):
                s[k] = (id(v), [(id(a), a.tobytes(), str(a.dtype), a.shape) for a in v])
            elif isinstance(v, list):
                s[k] = (id(v), list(v))
            else:   # StateTraj / LumpedStateTraj: private slots and reported values
                slots = [a.tobytes() for a in v._trajs] + [v._states.tobytes()]
                if hasattr(v, '_state_assignment'):
                    slots += [v._state_assignment.tobytes(), v._macrostates.tobytes(), bool(v.positive)]
                s[k] = (slots, [t.tolist() for t in v.trajs], v.states.tolist())
        return s

    lag, S, F, tau = case['lag'], shared['S'], shared['F'], case['tau']
    churn = [0]

    def ck_far():
        # tmax beyond the total number of frames (the late models are all-zero): between calls, arrays of the sizes the
        # result uses are filled with other values and released, so values read from unwritten memory would change
        churn[0] += 1
        n = sum(len(t) for t in trajs) + 10
        m = n // lag
        junk = [np.full(k, 3.0 + churn[0]) for k in (m + 2, m + 1, m, m - 1, 7, 64) if k > 0]
        junk += [np.full(k, bool(churn[0] % 2)) for k in (m + 2, m + 1, m, m - 1) if k > 0]
        del junk
        return {str(k): [v['time'].tolist(), {str(s): c.tolist() for s, c in v['ck'].items()},
                         np.atleast_1d(v['is_ergodic']).tolist(), np.atleast_1d(v['is_fuzzy_ergodic']).tolist()]
                for k, v in mh.msm.ck_test(trajs, [lag], n).items()}
    calls = {
        'emm': lambda: mh.msm.estimate_markov_model(trajs, lag),
        'emm_obj': lambda: mh.msm.estimate_markov_model(obj, lag),
        'emm_lumped': lambda: lobj.estimate_markov_model(lag),
        'its': lambda: mh.msm.implied_timescales(obj, [lag, lag + 1]),
        'ck': lambda: {str(k): [v['time'].tolist(), {str(s): c.tolist() for s, c in v['ck'].items()}]
                       for k, v in mh.msm.ck_test(trajs, [lag], 3 * lag + 1).items()},
        'ck_far': ck_far,
        'coring': lambda: mh.md.dynamical_coring(trajs, tau).trajs,
        'coring_obj': lambda: mh.md.dynamical_coring(obj, tau).trajs,
        'wt': lambda: mh.md.estimate_waiting_times(trajs, S, F),
        'paths': lambda: sorted((list(map(int, k)), list(map(int, v))) for k, v in mh.md.estimate_paths(obj, S, F).items()),
        'sim': lambda: mh.md.compare_discretization(trajs, other),
        'shift': lambda: mh.shift_data(trajs, [present[0], present[1]], [present[1], present[0]]),
        'rename_idx': lambda: mh.rename_by_index(arr2, return_permutation=True),
        'rename_pop': lambda: mh.rename_by_population(trajs, return_permutation=True),
        'unique': lambda: mh.unique(trajs, return_counts=True),
        'peq': lambda: mh.msm.peq(T),
        'is_ergodic': lambda: [mh.utils.tests.is_ergodic(T), mh.utils.tests.is_fuzzy_ergodic(T), mh.utils.tests.is_transition_matrix(T)],
        'mask': lambda: mh.utils.tests.ergodic_mask(T),
        'eig': lambda: [np.abs(x) for x in mh.msm.utils.linalg.left_eigenvectors(T)],
        'gauss': lambda: mh.utils.filtering.gaussian_filter(series, 1.5),
        'gauss2d': lambda: mh.utils.filtering.gaussian_filter(table, 2.0),
        'rmean': lambda: [mh.utils.filtering.runningmean(series, 4), mh.utils.runningmean(series, 3)],
        'rownorm': lambda: mh.msm.row_normalize_matrix(T * 3.0),
        'mpow': lambda: mh.utils.matrix_power(T, 3),
        'swapcols': lambda: mh.utils.swapcols(table, [0, 1], [1, 0]),
        'swapcols_f': lambda: [mh.utils.swapcols(table_f, [0, 1, 2], [2, 0, 1]), mh.utils.swapcols(row1, [0, 2], [2, 0])],
        'peq_big': lambda: mh.msm.peq(Tbig),
        'eig_big': lambda: mh.msm.utils.linalg.left_eigenvalues(Tbig, nvals=3),
        'sim_obj': lambda: [mh.md.compare_discretization(obj, oobj), mh.md.compare_discretization(oobj, obj, method='directed')],
        'ck_obj': lambda: {str(k): [v['time'].tolist(), {str(s): c.tolist() for s, c in v['ck'].items()}]
                           for k, v in mh.msm.ck_test(obj, [lag], 3 * lag + 1).items()},
        'ck_arr': lambda: {str(k): [v['time'].tolist(), {str(s): c.tolist() for s, c in v['ck'].items()}]
                           for k, v in mh.msm.ck_test(trajs, lagarr, 3 * lag + 3).items()},
        'its_arr': lambda: mh.msm.implied_timescales(obj, lagarr),
        'wt_arr': lambda: mh.md.estimate_waiting_times(trajs, Sarr, Farr),
        'tmat_neg': lambda: mh.utils.datasets.propagate_tmat(Tneg, 40),
        'msm_wt_lumped': lambda: mh.msm.estimate_waiting_times(trajs=lobj2, lagtime=lag, start=[60], final=[61], steps=200, return_list=True),
        'msm_tt_lumped': lambda: mh.msm.timescales.estimate_transition_times(trajs=lobj, lagtime=lag, start=[50], final=[51], steps=200),
        'emm_lumped2': lambda: lobj2.estimate_markov_model(lag),
        'emm_ring': lambda: lobj3.estimate_markov_model(1),
        # handing an existing object to the constructors again (what every analysis does internally), also with
        # another value of `positive`: the caller's object comes back and must be left as it was
        'rewrap': lambda: [mh.LumpedStateTraj(lobj, positive=True) is lobj, mh.StateTraj(lobj) is lobj, mh.StateTraj(obj) is obj],
        'rewrap2': lambda: [mh.LumpedStateTraj(lobj2, positive=True) is lobj2, mh.msm.estimate_markov_model(mh.LumpedStateTraj(lobj2, positive=True), lag)],
        'rewrap_ring': lambda: mh.msm.estimate_markov_model(mh.LumpedStateTraj(lobj3, positive=True), 1),
        'msm_wt_ring': lambda: mh.msm.estimate_waiting_times(trajs=lobj3, lagtime=1, start=[int(lobj3.states[0])], final=[int(lobj3.states[-1])], steps=200, return_list=True),
        'msm_paths_ring': lambda: sorted((list(map(int, k)), list(map(int, v))) for k, v in mh.msm.estimate_paths(
            trajs=lobj3, lagtime=1, start=[int(lobj3.states[0])], final=[int(lobj3.states[-1])], steps=200).items()),
        'format': lambda: mh.utils.format_state_traj(arr2),
        'statetraj': lambda: [mh.StateTraj(trajs).trajs, mh.StateTraj(arr2).index_trajs, mh.StateTraj(obj) is obj],
        'mcmc': lambda: mh.msm.timescales.propagate_MCMC(trajs, lag, 50),
        'msm_wt': lambda: mh.msm.estimate_waiting_times(trajs=obj, lagtime=lag, start=S, final=F, steps=400, return_list=True),
        'msm_tt': lambda: mh.msm.timescales.estimate_transition_times(trajs=trajs, lagtime=lag, start=S, final=F, steps=400),
        'msm_paths': lambda: sorted((list(map(int, k)), list(map(int, v))) for k, v in
                                    mh.msm.estimate_paths(trajs=trajs, lagtime=lag, start=S, final=F, steps=300).items()),
        'tmat': lambda: mh.utils.datasets.propagate_tmat(T, 40),
    }
    import msmhelper.utils.datasets  # noqa

    def scribble(x):
        # a caller may do what it likes with returned values: overwrite every returned array in place
        if isinstance(x, np.ndarray):
            if x.flags.writeable and x.size:
                try:
                    x[...] = x * 0 - 7 if x.dtype != bool else ~x
                except Exception:  # noqa
                    pass
        elif isinstance(x, dict):
            for v in x.values():
                scribble(v)
        elif isinstance(x, (list, tuple)):
            for v in x:
                scribble(v)

    def run(name):
        try:
            raw = calls[name]()
            res = canon_deep(raw)
            if name != 'format':      # format_state_traj hands out views of a 2-d input by design (a conversion helper)
                scribble(raw)
            return res
        except Exception as exc:  # noqa
            return {'err': type(exc).__name__}

    def canon_deep(x):
        if isinstance(x, dict):
            return {'t': 'dict', 'items': {k: canon_deep(v) for k, v in x.items()}}
        if isinstance(x, (list, tuple)):
            return {'t': 'list', 'items': [canon_deep(y) for y in x]}
        return canon(x)

    first, problems, log = {}, [], []
    if case.get('big'):
        # a deterministic estimator on a big multi-trajectory input, called several times: always the same matrix
        bigset = [np.array(t, dtype=np.int64) for t in G.expand({'trajs': None, 'rle': case['big']})]
        ref = None
        for _k in range(4):
            Tb = mh.msm.estimate_markov_model(bigset, 1)[0]
            if ref is None:
                ref = Tb.copy()
            elif not np.array_equal(ref, Tb):
                problems.append('estimate_markov_model on %d trajectories with %d frames returned different matrices for identical calls '
                                '(max difference %.3g)' % (len(bigset), sum(len(t) for t in bigset), float(np.abs(ref - Tb).max())))
                break
    if case.get('junction'):
        # the same frames, joined into one trajectory, are sampled first; the sampler for the two separate
        # trajectories must afterwards still never take the step that exists only across the boundary
        from msmhelper.msm import timescales as ts
        x, z = case['junction']
        joined = [np.concatenate(trajs)]
        for fn in (lambda d, n: ts.propagate_MCMC(d, 1, n), ):
            _reseed(case['seed'])
            fn(joined, 50)
            _reseed(case['seed'])
            chain = [int(v) for v in fn(trajs, 4000)]
            Tm, st = mh.msm.estimate_markov_model(trajs, 1)
            st = [int(v) for v in st]
            if Tm[st.index(x), st.index(z)] == 0 and any(a == x and b == z for a, b in zip(chain, chain[1:])):
                problems.append('after sampling the joined frames, propagate_MCMC on the two trajectories takes the step %d>%d '
                                'that is observed only across their boundary' % (x, z))
            _reseed(case['seed'])
            chain2 = [int(v) for v in fn(trajs, 4000)]
            if chain2 != chain:
                problems.append('propagate_MCMC is not reproducible from the generator state')
    for step in case['hist']:
        before = snap()
        if step[0] == 'reseed':
            _reseed(step[1])
            continue
        name = step[1]
        if step[0] == 'call':
            res = run(name)
            if name in first and first[name] != res:
                problems.append('deterministic call %s returned a different value when repeated' % name)
            first.setdefault(name, res)
        else:
            _reseed(step[2])
            r1 = run(name)
            mid = snap()
            _reseed(step[2])
            r2 = run(name)
            if r1 != r2:
                problems.append('randomised call %s is not reproducible from the generator state' % name)
            if mid != before:
                problems.append('call %s modified an argument: %s' % (name, [k for k in before if before[k] != mid[k]]))
        after = snap()
        if after != before:
            problems.append('call %s modified an argument: %s' % (name, [k for k in before if before[k] != after[k]]))
        log.append(name)
    return {'problems': problems, 'calls': log}


def requests(case):
    return []


def judge(case, ibc, answers):
    probs = []
    for cfg, r in ibc.items():
        if 'err' in r:
            probs.append({'kind': 'impl-vs-spec', 'cfg': cfg, 'finding': None, 'what': 'history failed: %s %s' % (r['err'], r.get('msg'))})
            continue
        for p in r['problems']:
            probs.append({'kind': 'impl-vs-spec', 'cfg': cfg, 'finding': None, 'what': p})
    return probs


def nontrivial(case, ibc):
    names = [s[1] for s in case['hist'] if s[0] == 'call']
    return len(names) != len(set(names)) and any(s[0] == 'rand' for s in case['hist'])


def describe(case, ibc):
    out = ['alphabet:' + case['alpha'], 'len:%d' % (len(case['hist']) // 4 * 4)]
    for s in case['hist']:
        if s[0] != 'reseed':
            out.append('call:' + s[1])
    return out
