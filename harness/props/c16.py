# -*- coding: utf-8 -*-
"""C16 - text input/output round trip, columns, limits, microstates."""
import itertools

import common as C
import gen as G

PROP = 'C16'
THEOREMS = ['number_roundtrip', 'roundtrip_thm', 'cols_order', 'cols_count', 'nrows_prefix', 'limits_pieces',
            'limits_reject', 'micro_dtype', 'micro_rejects_float', 'micro_labels_unchanged']
CONFIGS = [dict(jit=True)]
RULE = ('real files in a scratch directory: random integer tables (1..200 rows, 1..6 columns, negatives, '
        'values beyond 16 bit), header strings (None, single/multi-line, containing #, tabs, CR), formats '
        "%.5f / %.0f / %d, every read option (dtype, usecols subsets/permutations, nrows), limits files "
        '(compositions of the row count, inconsistent limits), microstate files (requested integer dtypes, '
        'default, float dtype, multi-column). Both directions: the implementation reads what the model '
        'rendered and the model parses the bytes the implementation wrote (compared byte-for-byte after '
        'the 4 auto-generated header lines). Thorough: all column permutations/subsets of <= 4 columns and '
        'all compositions of <= 7 rows. Non-trivial: >= 2 columns with non-monotone usecols, or limits '
        'with >= 2 pieces, or a multi-line header.'
        " Added classes: labels at the ends of the requested integer type's range, row limit 0."
        ' Later: headers containing braces / percent signs, reads through the several-comment-characters path, usecols given as an int32 array (left untouched, reusable), one directory and the same file names for every case of a worker (nothing may be remembered per path).'
        ' Fifth/sixth batch: inconsistent limits that are cumulative end indices.')
TRUSTED = ['pandas read_csv / numpy savetxt are modelled (Model/TextIO.v), not verified', 'header text restricted to latin-1']
ASSUMPTIONS = ['integer tables; values within int64']
BATCH = 100
FMT = {'%.5f': 0, '%.0f': 1, '%d': 2}
HEADERS = [None, 'x', 'col1 col2', 'first line\nsecond line', 'with # hash', '# starts with hash\n\nblank line above',
           'tab\tseparated', 'trailing newline\n', '1 2 3', 'a\rb', 'x_{1} x_{2}', "{'lagtime': 10}", 'open { brace', '{} {user} {0}', '100% %d %s']


def _table(rng):
    nr, nc = rng.choice([1, 2, 3, 5, 8, 20, 200]), rng.randint(1, 6)
    style = rng.choice(['small', 'small', 'neg', 'wide'])
    lo, hi = {'small': (0, 20), 'neg': (-300, 300), 'wide': (-10**9, 10**9)}[style]
    return [[rng.randint(lo, hi) for _ in range(nc)] for _ in range(nr)]


def _composition(rng, n):
    parts, left = [], n
    while left > 0:
        k = rng.randint(1, left)
        parts.append(k)
        left -= k
    return parts


def gen(rng, tier):
    n = G.budget(250) if tier == 'quick' else 6000
    for _ in range(n):
        t = _table(rng)
        nr, nc = len(t), len(t[0])
        fmt = rng.choice(list(FMT))
        hdr = rng.choice(HEADERS)
        kind = rng.choice(['read', 'read', 'cols', 'limits', 'micro'])
        case = {'k': kind, 'table': t, 'fmt': fmt, 'header': hdr, 'dtype': rng.choice([None, 'int64', 'int32']), 'cols': None,
                'nrows': None, 'limits': None, 'mdtype': None}
        if kind == 'cols' and nc >= 1:
            k = rng.randint(1, nc)
            case['cols'] = rng.sample(range(nc), k)
            if rng.random() < 0.3:
                case['nrows'] = rng.randint(0, nr)
        elif kind == 'read' and rng.random() < 0.3:
            case['nrows'] = rng.randint(0, nr + 2)
        elif kind == 'limits':
            lim = _composition(rng, nr)
            r_ = rng.random()
            if r_ < 0.15:
                lim[-1] += rng.choice([1, -1, 2]) if lim[-1] > 1 else 1
            elif r_ < 0.27 and nr >= 3:
                # inconsistent limits that look like something else: the CUMULATIVE end indices of a composition
                # (strictly increasing, last entry = number of rows), or the lengths in another order plus the total
                comp = _composition(rng, nr)
                while len(comp) < 2:
                    comp = _composition(rng, nr)
                cum, acc = [], 0
                for c in comp:
                    acc += c
                    cum.append(acc)
                lim = cum if rng.random() < 0.7 else comp + [nr]
            case['limits'] = lim
        elif kind == 'micro':
            wide = rng.random() < 0.4
            case['table'] = [[rng.randint(-100, 100) if not wide else rng.randint(-40000, 70000)] for _ in range(nr)]
            if rng.random() < 0.1:
                case['table'] = t if nc > 1 else [[1, 2], [3, 4]]
            case['mdtype'] = rng.choice([None, None, 'int16', 'int32', 'int64', 'int8', 'float64'])
            if wide and case['mdtype'] in (None, 'int16', 'int8'):
                case['mdtype'] = rng.choice(['int32', 'int64'])
            if case['mdtype'] == 'int8':
                case['table'] = [[max(-100, min(100, v)) for v in r] for r in case['table']]
            if rng.random() < 0.25 and case['mdtype'] != 'float64' and len(case['table'][0]) == 1:
                # labels at the very ends of the requested type's range
                lo, hi = {None: (-32768, 32767), 'int16': (-32768, 32767), 'int8': (-128, 127), 'int32': (-2**31, 2**31 - 1),
                          'int64': (-2**62, 2**62)}[case['mdtype']]
                for _k in range(rng.randint(1, 3)):
                    case['table'][rng.randrange(nr)] = [rng.choice([hi, hi, lo, hi - 1, lo + 1])]
                if abs(hi) > 2**40:
                    case['fmt'] = '%d'
                    case['dtype'] = 'int64'     # the generic read of the same file: a type that holds the labels
            case['limits'] = _composition(rng, nr) if rng.random() < 0.5 else None
        yield case
    if tier == 'thorough':
        t = [[10 * r + c for c in range(4)] for r in range(7)]
        for k in range(1, 5):
            for cols in itertools.permutations(range(4), k):
                yield {'k': 'cols', 'table': t, 'fmt': '%.0f', 'header': 'h', 'dtype': 'int64', 'cols': list(cols), 'nrows': None, 'limits': None, 'mdtype': None}
        for nr in range(1, 8):
            for cuts in itertools.product([0, 1], repeat=nr - 1):
                lim, cur = [], 1
                for c in cuts:
                    if c:
                        lim.append(cur)
                        cur = 1
                    else:
                        cur += 1
                lim.append(cur)
                yield {'k': 'limits', 'table': t[:nr], 'fmt': '%d', 'header': None, 'dtype': 'int64', 'cols': None, 'nrows': None, 'limits': lim, 'mdtype': None}
        yield 'EXHAUSTIVE'


def corpus():
    t = [[1, -2, 300], [40000, 5, -6]]
    return [{'k': 'cols', 'table': [[11, 22, 33], [44, 55, 66]], 'fmt': '%.5f', 'header': 'h', 'dtype': 'int64', 'cols': [1, 2, 0], 'nrows': None, 'limits': None, 'mdtype': None},
            {'k': 'read', 'table': [[8], [8], [7]], 'fmt': '%.0f', 'header': 'microstates, number of states:\n8', 'dtype': 'int64', 'cols': None, 'nrows': None, 'limits': None, 'mdtype': None},
            {'k': 'micro', 'table': [[40000], [3]], 'fmt': '%.0f', 'header': None, 'dtype': None, 'cols': None, 'nrows': None, 'limits': None, 'mdtype': 'int32'},
            {'k': 'read', 'table': t, 'fmt': '%.5f', 'header': 'a\rb', 'dtype': 'int64', 'cols': None, 'nrows': None, 'limits': None, 'mdtype': None}]


def impl(case):
    import os
    import shutil
    import tempfile
    import numpy as np
    import msmhelper as mh
    from implutil import canon
    # ONE directory per worker process, the same file names for every case: the readers see the same
    # paths again and again with other contents (nothing may be remembered per path)
    d = os.path.join('/var/tmp', 'msmv_c16_%d' % os.getpid())
    shutil.rmtree(d, ignore_errors=True)
    os.makedirs(d)
    try:
        f = os.path.join(d, 'data.dat')
        table = np.array(case['table'], dtype=np.int64)
        arr = table[:, 0] if table.shape[1] == 1 and case['k'] == 'micro' else table
        mh.savetxt(f, arr, header=case['header'], fmt=case['fmt'])
        raw = open(f, 'rb').read()
        out = {'bytes': list(raw)}
        kw = {}
        if case['dtype']:
            kw['dtype'] = {'int64': np.int64, 'int32': np.int32}[case['dtype']]
        if case['cols'] is not None:
            kw['usecols'] = tuple(case['cols'])
        if case['nrows'] is not None:
            kw['nrows'] = case['nrows']

        def guarded(fn):
            try:
                return {'ok': canon(fn())}
            except Exception as exc:  # noqa
                from worker import errkind
                return {'err': errkind(exc), 'msg': str(exc)[:100]}
        # a file with the model's rendering is written by the driver into case['model_bytes'] (second pass)
        out['read'] = guarded(lambda: mh.opentxt(f, **kw))
        if case['cols'] is not None:
            # the caller's column list as an int32 array: left as it was, and good for a second read
            cols_arr = np.array(case['cols'], dtype=np.int32)
            kw2 = dict(kw, usecols=cols_arr)
            first = guarded(lambda: mh.opentxt(f, **kw2))
            second = guarded(lambda: mh.opentxt(f, **kw2))
            out['cols_arr'] = {'intact': cols_arr.tolist() == list(case['cols']), 'same': first == second == out['read']}
        # the same read through the several-comment-characters path (np.loadtxt fallback)
        # (np.loadtxt has its own conventions for one-row files and for float-formatted integers with an integer
        # dtype, which the property does not cover: only integer-formatted tables with at least two rows)
        if case['fmt'] in ('%d', '%.0f') and len(case['table']) >= 2 and (case['nrows'] is None or case['nrows'] >= 2):
            out['read_multi'] = guarded(lambda: mh.opentxt(f, comment=['#', '@'], **kw))
        lf = None
        if case['limits'] is not None:
            lf = os.path.join(d, 'limits.dat')
            with open(lf, 'w') as fh:
                fh.write('# limits\n' + '\n'.join(str(x) for x in case['limits']) + '\n')
        if case['k'] == 'limits':
            out['lim'] = guarded(lambda: mh.opentxt_limits(f, lf, dtype=np.int64))
            out['open_limits'] = guarded(lambda: mh.open_limits(len(case['table']), lf))
        if case['k'] == 'micro':
            mkw = {}
            if case['mdtype']:
                mkw['dtype'] = {'int8': np.int8, 'int16': np.int16, 'int32': np.int32, 'int64': np.int64, 'float64': np.float64}[case['mdtype']]
            out['micro'] = guarded(lambda: mh.openmicrostates(f, lf, **mkw))
        if case.get('model_bytes') is not None:
            g = os.path.join(d, 'model.dat')
            with open(g, 'wb') as fh:
                fh.write(bytes(case['model_bytes']))
            out['read_model'] = guarded(lambda: mh.opentxt(g, **kw))
        return out
    finally:
        shutil.rmtree(d, ignore_errors=True)


def _hdr_lines(h):
    if not h:
        return []
    return [list(l.encode('latin1')) for l in h.replace('\r\n', '\n').replace('\r', '\n').split('\n')]


def requests(case):
    hdr = _hdr_lines(case['header'])
    return [[1601, FMT[case['fmt']], len(hdr)] + [x for l in hdr for x in C.eZs(l)] + C.enested(case['table'])]


def _opt(x, enc):
    return [0] if x is None else [1] + enc(x)


def _tab(c):
    """table (list of rows) from a canonical array"""
    if c['t'] != 'arr':
        return None
    v = [int(float.fromhex(x)) if isinstance(x, str) else x for x in c['v']]
    if len(c['shape']) == 1:
        return [[x] for x in v]
    n = c['shape'][1]
    return [v[i * n:(i + 1) * n] for i in range(c['shape'][0])]


def judge(case, ibc, answers):
    probs = []
    model_bytes = C.Reader(answers[0]).Zs()
    for cfg, r in ibc.items():
        def P(kind, what, finding=None):
            probs.append({'kind': kind, 'cfg': cfg, 'what': what, 'finding': finding})
        if 'err' in r and 'bytes' not in r:
            P('impl-vs-spec', 'writer failed: %s %s' % (r['err'], r.get('msg')))
            continue
        raw = r['bytes']
        # the writer: after the 4 auto-generated header lines, byte-for-byte the model's rendering
        pos, seen = 0, 0
        while seen < 4 and pos < len(raw):
            if raw[pos] == 10:
                seen += 1
            pos += 1
        cr = case['header'] is not None and '\r' in case['header']
        if raw[pos:] != model_bytes:
            P('impl-vs-model', 'file body differs from the model rendering: %s ... vs %s ...' % (bytes(raw[pos:pos + 60]), bytes(model_bytes[:60])))
        # the reader, on the file the implementation wrote
        cols, nrows = case['cols'], case['nrows']
        req = [1602, 1, 35] + C.eZs(raw) + _opt(cols, C.eZs) + _opt(nrows, lambda x: [x])
        m = C.Reader(C.mrun([req])[0])
        model_read = m.res(m.nested)
        full = case['table']
        sel = [[row[c] for c in cols] for row in full] if cols is not None else full
        if nrows is not None:
            sel = sel[:nrows]
        if not cr and model_read != ('ok', sel):
            probs.append({'kind': 'model-vs-spec', 'cfg': '-', 'finding': None, 'what': 'model does not read the written file back: %s' % C.short(model_read, 100)})
        ca = r.get('cols_arr')
        if ca and not (ca['intact'] and ca['same']):
            P('impl-vs-spec', 'usecols given as an int32 array: %s' % ('the array was reordered by the reader' if not ca['intact'] else 'a repeated read with the same array differs'))
        for tag in ('read', 'read_model', 'read_multi'):
            if tag not in r:
                continue
            got = r[tag]
            if 'err' in got:
                if model_read[0] == 'ok' or not cr:
                    P('impl-vs-spec', '%s: reader raised %s (%s) on a file written by savetxt' % (tag, got['err'], got.get('msg')),
                      'header-carriage-return' if cr else None)
                continue
            c = got['ok']
            t = _tab(c)
            ncol = len(cols) if cols is not None else len(full[0])      # also for a row limit of 0
            want_shape = [len(sel)] if ncol == 1 else [len(sel), ncol]
            if t != sel or c['shape'] != want_shape:
                P('impl-vs-spec', '%s: read back %s (shape %s), written %s' % (tag, C.short(t, 100), c['shape'], C.short(sel, 100)),
                  'header-carriage-return' if cr else None)
            elif case['dtype'] and c['dtype'] != case['dtype']:
                P('impl-vs-spec', '%s: dtype %s, requested %s' % (tag, c['dtype'], case['dtype']))
        if case['k'] == 'limits':
            lim = case['limits']
            ans = C.Reader(C.mrun([[1604] + C.enested(full) + [1] + C.eZs(lim)])[0])
            exp = ans.res(lambda: ans.list(ans.nested))
            got = r['lim']
            if exp[0] == 'err':
                if got.get('err') != exp[1]:
                    P('impl-vs-spec', 'inconsistent limits %s for %d rows not rejected with %s: %s' % (lim, len(full), exp[1], C.short(got, 80)))
            elif 'err' in got:
                P('impl-vs-spec', 'opentxt_limits raised %s' % got['err'])
            else:
                parts = [_tab(i) for i in got['ok']['items']]
                if parts != exp[1]:
                    P('impl-vs-spec', 'pieces %s, expected lengths %s' % (C.short([len(p) for p in parts], 80), lim))
                ol = r['open_limits']
                cum = [sum(lim[:k + 1]) for k in range(len(lim))]
                if 'err' in ol or [int(x) for x in _tab(ol['ok']) and [v[0] for v in _tab(ol['ok'])]] != cum:
                    P('impl-vs-spec', 'open_limits returned %s, expected cumulative %s' % (C.short(ol, 80), cum))
        if case['k'] == 'micro':
            code = {None: 0, 'int8': 8, 'int16': 16, 'int32': 32, 'int64': 64, 'float64': 1}[case['mdtype']]
            req = [1603, 1, 35] + C.eZs(raw) + _opt(case['limits'], C.eZs) + [code]
            ans = C.Reader(C.mrun([req])[0])
            exp = ans.res(lambda: (ans.Z(), ans.nested()))
            got = r['micro']
            if exp[0] == 'err':
                # multi-column files must be REJECTED; the property does not fix the error kind (pandas may
                # already refuse the int16 conversion of wide values with ValueError before the column check)
                if 'err' not in got or (exp[1] != 'FileError' and got.get('err') != exp[1]):
                    P('impl-vs-spec', 'openmicrostates: expected %s, got %s' % (exp[1], C.short(got, 80)))
            elif 'err' in got:
                P('impl-vs-spec', 'openmicrostates raised %s (%s)' % (got['err'], got.get('msg')))
            else:
                items = got['ok']['items']
                vals = [i['v'] for i in items]
                dts = {i['dtype'] for i in items}
                want_dt = 'int%d' % exp[1][0]
                if dts != {want_dt}:
                    P('impl-vs-spec', 'openmicrostates returned dtype %s, requested %s' % (sorted(dts), case['mdtype'] or 'default int16'),
                      'micro-dtype-ignored' if dts == {'int16'} else None)
                elif vals != exp[1][1]:
                    P('impl-vs-spec', 'openmicrostates labels %s, file holds %s' % (C.short(vals, 80), C.short(exp[1][1], 80)))
    return probs


def nontrivial(case, ibc):
    c = case['cols']
    return (c is not None and len(c) >= 2 and c != sorted(c)) or (case['limits'] is not None and len(case['limits']) >= 2) \
        or (case['header'] is not None and '\n' in case['header'])


def describe(case, ibc):
    r = next(iter(ibc.values()))
    return ['kind:' + case['k'], 'fmt:' + case['fmt'], 'ncols:%d' % len(case['table'][0]),
            'rows:%s' % ('1' if len(case['table']) == 1 else '<=8' if len(case['table']) <= 8 else '>8'),
            'header:' + ('none' if case['header'] is None else 'multi' if '\n' in case['header'] else 'single'),
            'read:' + ('err-' + r['read']['err'] if 'err' in r.get('read', {}) else 'ok')]
