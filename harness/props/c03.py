# -*- coding: utf-8 -*-
"""C03 - Hummer-Szabo lumped model."""
import itertools
from fractions import Fraction

import common as C
import gen as G

PROP = 'C03'
THEOREMS = ['inverse_certificate', 'stationary_certificate', 'hs_rowsum_stationary', 'hs_positive',
            'aggregation_is_partition', 'hs_identity_lumping_thm', 'hs_refuses_nonergodic', 'hs_labels', 'gauss_jordan_inverse_sound', 'gauss_jordan_inverse_complete', 'hs_total_on_ergodic_input']
CONFIGS = [dict(jit=True)]
CONFIGS_THOROUGH = [dict(jit=True), dict(jit=False)]
RULE = ('Markov-structured micro trajectories (2..7 microstates quick, ..8 thorough; 1..3 trajectories; '
        'unsorted/gapped micro and macro labels), random surjective lumpings onto 2..n macrostates, the '
        'identity lumping, lag 1..4, both values of positive, plus non-ergodic micro chains for the '
        'refusal; thorough adds all surjective lumpings for n <= 5 on fixed chains. Compared: T_A vs the '
        'exact rational Hummer-Szabo matrix (1e-8), labels, refusal; on the implementation output rows '
        'sum to one (1e-10), aggregated equilibrium stationary (1e-8), non-negativity for positive=True. '
        'Non-trivial: >= 3 microstates and a non-identity lumping.'
        ' Added classes: bad lumpings of driven ring walks (raw projection with negative and > 1 entries in one row), irreducible periodic micro chains (must be refused), the same lumped object estimated at other lag times first, arrays handed out by the object overwritten before the estimate.'
        ' Later: a state that appears two frames before the end (ergodic at one lag, refused at another; both asked on one object), narrow micro types with macro labels outside them, snippets of lag+1 frames.'
        ' Thorough only: two trajectories of 2.0-2.3 million frames in which one microstate (a macrostate of its own) is seen in one frame: equilibrium population below 1e-6, model still clearly ergodic.')
TRUSTED = ['LAPACK inv / eig inside the implementation (compared within 1e-8)',
           'the run-time certificates (K*Z = Z*K = I, N*M = M*N = I) are kept, but are now redundant: existence of both '
           'inverses and of the stationary vector on ergodic input is proved (hs_total_on_ergodic_input)']
ASSUMPTIONS = ['micro model ergodic away from the 1e-8 threshold (threshold-free cases only)']
BATCH = 200
TOL = Fraction(1, 10**8)


def chain(rng, labs, n, ergodic=True):
    """sample a trajectory from a random sparse chain over labs"""
    k = len(labs)
    nxt = {}
    for i, a in enumerate(labs):
        outs = [labs[(i + 1) % k]] if ergodic else []
        outs += [a] * rng.randint(1, 4)
        for b in labs:
            if rng.random() < 0.45:
                outs.append(b)
        if not ergodic and i >= k // 2:
            outs = [b for b in outs if labs.index(b) >= k // 2] or [a]   # lower block absorbing
        nxt[a] = outs
    t = [rng.choice(labs)]
    for _ in range(n - 1):
        t.append(rng.choice(nxt[t[-1]]))
    return t


def lump(rng, labs, nmacro, macrolabs):
    k = len(labs)
    assign = list(range(nmacro)) + [rng.randrange(nmacro) for _ in range(k - nmacro)]
    rng.shuffle(assign)
    return {a: macrolabs[assign[i]] for i, a in enumerate(labs)}


def _gen0(rng, tier):
    N = G.budget(140) if tier == 'quick' else 3000
    kmax = 7 if tier == 'quick' else 8
    for _ in range(N):
        k = rng.randint(2, kmax)
        labs, akind = G.alphabet(rng, k=k)
        rng.shuffle(labs)
        erg = rng.random() < 0.85
        ntr = rng.choice([1, 1, 2, 3])
        micro = [chain(rng, labs, rng.randint(40 * k, 120 * k), erg) for _ in range(ntr)]
        present = sorted({v for t in micro for v in t})
        k2 = len(present)
        if k2 < 2:
            continue
        style = rng.choice(['random', 'random', 'identity', 'two'])
        nm = k2 if style == 'identity' else 2 if style == 'two' else rng.randint(2, k2)
        mlabs, _ = G.alphabet(rng, k=nm)
        rng.shuffle(mlabs)
        f = lump(rng, present, nm, mlabs)
        macro = [[f[v] for v in t] for t in micro]
        yield {'macro': macro, 'micro': micro, 'pos': rng.random() < 0.5, 'lag': rng.choice([1, 1, 2, 3, 4]),
               'style': style + ('' if erg else '-nonergodic'), 'alpha': akind}
    for _ in range(G.budget(40) if tier == 'quick' else 1500):
        # bad lumpings of driven ring walks: raw projections with negative and > 1 entries in one row
        k = rng.randint(4, 8)
        nm = 3 if k <= 4 else rng.randint(3, min(k - 1, 4))
        p = rng.choice([0.6, 0.8, 0.9])
        t = [rng.randrange(k)]
        for _i in range(rng.randint(20, 80) - 1):
            r = rng.random()
            t.append((t[-1] + 1) % k if r < p else t[-1] if r < p + (1 - p) / 2 else (t[-1] - 1) % k)
        present = sorted(set(t))
        if len(present) < nm + 1:
            continue
        f = {a: 3 + 2 * (i % nm) for i, a in enumerate(present)}
        yield {'macro': [[f[v] for v in t]], 'micro': [t], 'pos': rng.random() < 0.8, 'lag': 1,
               'style': 'ring-mod', 'alpha': 'index'}
    for _ in range(G.budget(24) if tier == 'quick' else 600):
        # irreducible but periodic micro chains (no self transitions): must be refused
        k = rng.randint(3, 7)
        labs, akind = G.alphabet(rng, k=k)
        rng.shuffle(labs)
        kind = rng.choice(['bipartite', 'cycle', 'tripartite'])
        if kind == 'cycle':
            start = rng.randrange(k)
            t = [labs[(start + i) % k] for i in range(rng.randint(3 * k, 8 * k))]
            lag = rng.choice([1, 1, 2]) if k > 2 else 1
        else:
            parts = 2 if kind == 'bipartite' else 3
            if k < 2 * parts - 1:
                parts = 2
            groups = [labs[i::parts] for i in range(parts)]
            n = rng.randint(30 * k, 60 * k)
            t = [rng.choice(groups[i % parts]) for i in range(n)]
            lag = rng.choice([1, 1, 3, 5]) if parts == 2 else rng.choice([1, 2, 4])
        present = sorted(set(t))
        nm = rng.randint(2, len(present))
        mlabs, _ = G.alphabet(rng, k=nm)
        f = lump(rng, present, nm, mlabs)
        yield {'macro': [[f[v] for v in t]], 'micro': [t], 'pos': rng.random() < 0.5, 'lag': lag,
               'style': 'periodic-' + kind, 'alpha': akind}
    if tier == 'thorough':
        for k in (3, 4, 5):
            labs = list(range(k))
            micro = [chain(rng, labs, 150 * k) for _ in range(2)]
            present = sorted({v for t in micro for v in t})
            for assign in itertools.product(range(len(present)), repeat=len(present)):
                nm = len(set(assign))
                if nm < 2 or sorted(set(assign)) != list(range(nm)):
                    continue
                f = {a: 10 + 3 * assign[i] for i, a in enumerate(present)}
                macro = [[f[v] for v in t] for t in micro]
                for pos in (False, True):
                    yield {'macro': macro, 'micro': micro, 'pos': pos, 'lag': 1, 'style': 'enum', 'alpha': 'enum'}
        yield 'EXHAUSTIVE'


def gen_late(rng, tier):
    # a microstate that shows up only two frames before the end: the model at lag 1 is ergodic, at lag 2 the
    # late state is entered but never left (not a transition matrix -> refusal); one object is asked at both lags
    for _ in range(G.budget(10) if tier == 'quick' else 300):
        k = rng.randint(3, 5)
        labs, akind = G.alphabet(rng, k=k + 1)
        rng.shuffle(labs)
        late, labs = labs[0], labs[1:]
        t = chain(rng, labs, rng.randint(60 * k, 120 * k))
        t = t + [late, rng.choice(labs)]
        present = sorted(set(t))
        nm = rng.randint(2, len(present) - 1)
        mlabs, _ = G.alphabet(rng, k=nm)
        f = lump(rng, present, nm, mlabs)
        first_lag, lag = rng.choice([(2, 1), (2, 1), (1, 2), (3, 1)])
        yield {'macro': [[f[v] for v in t]], 'micro': [t], 'pos': rng.random() < 0.5, 'lag': lag, 'prelags': [first_lag],
               'style': 'late-state', 'alpha': akind}


def gen_narrow(rng, tier):
    # micro trajectories in a narrow (un)signed type with contiguous labels, macro labels outside that type
    for _ in range(G.budget(10) if tier == 'quick' else 300):
        k = rng.randint(3, 6)
        base = rng.choice([0, 0, 1, 5])
        labs = list(range(base, base + k))
        t = chain(rng, labs, rng.randint(60 * k, 120 * k))
        present = sorted(set(t))
        nm = rng.randint(2, len(present))
        mlabs = rng.sample([-1, -7, 300, 129, 256, 70000, 3, 4], nm)
        f = lump(rng, present, nm, mlabs)
        mdtype = rng.choice(['uint8', 'int8', 'int16', 'uint16'])
        style = 'narrow-micro'
        if rng.random() < 0.35:
            # the narrow signed type used over its whole range: negative minimum, span beyond the type's maximum
            mdtype = rng.choice(['int8', 'int8', 'int16'])
            hi = 127 if mdtype == 'int8' else 32767
            new = sorted(set([rng.randint(-hi - 1, -hi // 2), rng.randint(hi // 2 + 1, hi)] + [rng.randint(-hi // 2, hi // 2) for _ in range(len(present) - 2)]))
            if len(new) == len(present):
                ren = dict(zip(present, new))
                t = [ren[v] for v in t]
                f = {ren[a]: b for a, b in f.items()}
                style = 'narrow-micro-full-range'
        yield {'macro': [[f[v] for v in t]], 'micro': [t], 'pos': rng.random() < 0.5, 'lag': rng.choice([1, 2]),
               'style': style, 'alpha': 'index', 'mdtype': mdtype}


def gen_snippets(rng, tier):
    for _ in range(G.budget(8) if tier == 'quick' else 200):
        k = rng.randint(3, 5)
        labs, akind = G.alphabet(rng, k=k)
        rng.shuffle(labs)
        lag = rng.choice([1, 2, 3])
        micro = [chain(rng, labs, rng.randint(60 * k, 100 * k))] + [chain(rng, labs, lag + 1) for _ in range(rng.randint(10, 70))]
        present = sorted({v for t in micro for v in t})
        nm = rng.randint(2, len(present))
        mlabs, _ = G.alphabet(rng, k=nm)
        f = lump(rng, present, nm, mlabs)
        yield {'macro': [[f[v] for v in t] for t in micro], 'micro': micro, 'pos': rng.random() < 0.5, 'lag': lag,
               'style': 'snippets', 'alpha': akind}


def gen_tiny_pop(rng, tier):
    # thorough only: millions of frames in which one microstate - a macrostate of its own - is seen in a
    # single frame, so that its equilibrium population is below 1e-6 while the model is still clearly
    # ergodic (entries of the Wielandt power ~1e-7 and above); the projected matrix A^T D M' A then has a
    # singular value of that size, and anything but a true inverse of it changes the answer
    if tier == 'quick':
        return
    for _ in range(2):
        k = rng.randint(3, 4)
        labs, akind = G.alphabet(rng, k=k + 1)
        rng.shuffle(labs)
        rare, labs = labs[0], labs[1:]
        w = [rng.randint(2, 6) for _ in labs]
        n = rng.randint(2000000, 2300000)
        t, cur = [], labs[0]
        rnd, choices = rng.random, rng.choices
        draws = choices(labs, weights=w, k=n)
        for i in range(n):
            if rnd() < 0.3:
                cur = draws[i]
            t.append(cur)
        t[rng.randint(n // 4, 3 * n // 4)] = rare
        nm = rng.randint(2, len(labs) - 1) if len(labs) > 2 else 2
        mlabs, _ = G.alphabet(rng, k=nm + 1)
        rng.shuffle(mlabs)
        f = lump(rng, labs, nm, mlabs[1:])
        f[rare] = mlabs[0]
        yield {'macro': [[f[v] for v in t]], 'micro': [t], 'pos': rng.random() < 0.5, 'lag': 1,
               'style': 'tiny-population', 'alpha': akind}


def gen(rng, tier):
    for case in gen_tiny_pop(rng, tier):
        yield case
    for case in gen_snippets(rng, tier):
        yield case
    for case in gen_narrow(rng, tier):
        yield case
    for case in gen_late(rng, tier):
        yield case
    for case in _gen0(rng, tier):
        if isinstance(case, dict) and case.get('style') != 'enum':
            r = rng.random()
            if r < 0.25:
                case['prelags'] = [rng.choice([1, 2, 3, 4, 5, 7]) for _ in range(rng.randint(1, 3))]
            elif r < 0.35:
                case['scribble'] = True
        yield case


def corpus():
    micro = [[0, 2, 1, 3, 1, 1, 3, 0, 1, 3, 3, 3]]
    return [
        {'macro': [[1 if v == 0 else 2 for v in micro[0]]], 'micro': micro, 'pos': True, 'lag': 1, 'style': 'corpus', 'alpha': 'corpus'},
        {'macro': [[1 if v == 0 else 2 for v in micro[0]]], 'micro': micro, 'pos': False, 'lag': 1, 'style': 'corpus', 'alpha': 'corpus'},
        {'macro': [[{3: 50, 10: 7, 21: 19, 40: 12}[v] for v in t] for t in [[3, 10, 21, 40, 3, 21, 10, 40, 40, 3, 3, 10, 21, 21, 40, 10, 3]]],
         'micro': [[3, 10, 21, 40, 3, 21, 10, 40, 40, 3, 3, 10, 21, 21, 40, 10, 3]], 'pos': False, 'lag': 1, 'style': 'identity', 'alpha': 'corpus'},
    ]


def impl(case):
    import numpy as np
    import msmhelper as mh
    from implutil import canon
    macro = [np.array(t) for t in case['macro']]
    micro = [np.array(t, dtype=case.get('mdtype') or np.int64) for t in case['micro']]
    lt = mh.LumpedStateTraj(macro, micro, positive=case['pos'])
    # history on the SAME object: estimates at other lag times first (whatever they answer), and the
    # caller overwrites arrays the object handed out; the estimate at the requested lag must not care
    for other in case.get('prelags') or []:
        try:
            lt.estimate_markov_model(other)
        except Exception:  # noqa
            pass
    if case.get('scribble'):
        for name in ('state_assignment', 'states', 'microstates'):
            try:
                a = getattr(lt, name)
                a[...] = a[::-1].copy()
            except Exception:  # noqa
                pass
    T, st = lt.estimate_markov_model(case['lag'])
    return {'T': canon(T), 'st': canon(st)}


def requests(case):
    return [[301] + C.enested(case['macro']) + C.enested(case['micro']) + C.ebool(case['pos']) + [case['lag']]]


def decode(ans):
    rd = C.Reader(ans)
    model = rd.res(lambda: rd.opt(lambda: (rd.Qmat(), rd.Zs())))
    pA = rd.opt(rd.Qs)
    emacro = rd.res(lambda: (rd.Qmat(), rd.Zs()))
    emicro = rd.res(lambda: (rd.Qmat(), rd.Zs(), rd.bool()))
    return model, pA, emacro, emicro


def _identity(case):
    m = {}
    for tM, tm in zip(case['macro'], case['micro']):
        for a, b in zip(tM, tm):
            m.setdefault(a, set()).add(b)
    return all(len(v) == 1 for v in m.values())


def judge(case, ibc, answers):
    probs = []
    model, pA, emacro, emicro = decode(answers[0])
    tfree = emicro[0] == 'ok' and emicro[1][2]
    if model[0] == 'ok' and model[1] is None:
        probs.append({'kind': 'model-vs-spec', 'cfg': '-', 'finding': None,
                      'what': 'certificate failed: fundamental matrix not invertible / no unique stationary vector'})
        return probs
    if model[0] == 'ok' and _identity(case) and not case['pos']:
        if emacro[0] != 'ok' or (model[1][0], model[1][1]) != (emacro[1][0], emacro[1][1]):
            probs.append({'kind': 'model-vs-spec', 'cfg': '-', 'finding': None,
                          'what': 'one microstate per macrostate but T_A differs from the re-labelled micro model'})
    for cfg, r in ibc.items():
        def P(kind, what):
            probs.append({'kind': kind, 'cfg': cfg, 'what': what, 'finding': None})
        if not tfree:
            continue
        if 'err' in r:
            if model != ('err', r['err']):
                P('impl-vs-spec', 'raised %s (%s), exact model %s' % (r['err'], r.get('msg'), C.short(model, 100)))
            continue
        if model[0] == 'err':
            P('impl-vs-spec', 'returned a matrix although the micro model is not ergodic (must be refused)')
            continue
        TA, st = model[1]
        n = len(st)
        if r['st']['v'] != st:
            P('impl-vs-spec', 'labels %s, expected ascending macrostates %s' % (r['st']['v'], st))
            continue
        if r['T']['shape'] != [n, n]:
            P('impl-vs-spec', 'shape %s' % r['T']['shape'])
            continue
        vals = [float.fromhex(x) for x in r['T']['v']]
        bad = [(k // n, k % n) for k in range(n * n) if not C.frac_close(vals[k], TA[k // n][k % n], TOL)]
        if bad:
            i, j = bad[0]
            P('impl-vs-spec', 'T_A[%d,%d] = %r, exact Hummer-Szabo value %.12f (%d entries off)' % (
                i, j, vals[i * n + j], float(TA[i][j]), len(bad)))
        # property checks on the implementation's own matrix
        M = [[Fraction(vals[i * n + j]) for j in range(n)] for i in range(n)]
        a1 = C.Reader(C.mrun([[302] + C.eQ(Fraction(1, 10**10)) + C.eQmat(M) + C.eQs(pA)])[0])
        rows_ok = a1.bool()
        a2 = C.Reader(C.mrun([[302] + C.eQ(TOL) + C.eQmat(M) + C.eQs(pA)])[0])
        a2.bool()
        stat_ok, nonneg = a2.bool(), a2.bool()
        if not rows_ok:
            P('impl-property', 'rows of the lumped matrix do not sum to one')
        if not case['pos'] and not stat_ok:
            P('impl-property', 'aggregated equilibrium populations are not stationary for the lumped matrix')
        if case['pos'] and not nonneg:
            P('impl-property', 'negative entry although positive=True')
    return probs


def nontrivial(case, ibc):
    k = len({v for t in case['micro'] for v in t})
    return k >= 3 and not _identity(case)


def describe(case, ibc):
    r = next(iter(ibc.values()))
    k = len({v for t in case['micro'] for v in t})
    m = len({v for t in case['macro'] for v in t})
    return ['micro:%d' % k, 'macro:%d' % m, 'positive:%s' % case['pos'], 'lag:%d' % case['lag'],
            'style:' + case['style'], 'outcome:' + ('err-' + r['err'] if 'err' in r else 'matrix')]
