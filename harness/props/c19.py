# -*- coding: utf-8 -*-
"""C19 - command-line tools produce what the API yields on the same files."""
from fractions import Fraction

import common as C
import gen as G

PROP = 'C19'
THEOREMS = ['split_array_partition', 'split_array_chunk_sizes', 'cli_no_cross_boundary']
CONFIGS = [dict(jit=True)]
RULE = ('generated files in a scratch directory (1..4 trajectories of different lengths via a limits file '
        'or none, 1..4 columns): dynamical-coring, gaussian-filtering and compare-discretization run '
        'through click.testing.CliRunner on msmhelper.__main__.main (thorough: also a real '
        '`python -m msmhelper` subprocess); outputs read back and compared with the API on the loaded '
        'data AND with the exact model (per-trajectory coring of the reference rule, per-part exact '
        'Gaussian filter within 5e-6, similarity to 5 decimals); the chunking helper for all '
        '(n states, chunk size) with n <= 40 (exhaustive) against the model split_array. Non-trivial: a '
        'limits file with >= 2 trajectories is present.'
        ' Added classes: one- and two-frame multi-column files, a limits file rewritten in place with another partition of the same frames (loaded before), a trajectory exactly tcor frames long and constant, labels congruent modulo 2^16 in compare-discretization.'
        ' Later: equal-length trajectory sets, a trajectory of > 2^15 frames in the limits file, widths 1.125 / 1.625 / 2.125 / 3.125, negative labels in the similarity command.'
        ' Fifth/sixth batch: equal trajectory lengths that are not neighbours.')
TRUSTED = ['click, the file system and the figure code are outside the model']
ASSUMPTIONS = []
BATCH = 30


def _lims(rng, n, k):
    cuts = sorted(rng.sample(range(1, n), k - 1)) if k > 1 else []
    out, a = [], 0
    for c in cuts + [n]:
        out.append(c - a)
        a = c
    return out


def gen(rng, tier):
    for n in range(0, 41):
        for chunk in range(1, 13):
            yield {'k': 'chunks', 'n': n, 'chunk': chunk}
    yield 'EXHAUSTIVE'
    N = G.budget(36) if tier == 'quick' else 600
    for _ in range(N):
        kind = rng.choice(['coring', 'coring', 'filter', 'filter', 'sim'])
        ntr = rng.choice([1, 2, 3, 4])
        n = rng.randint(max(12, 4 * ntr), 120)
        lims = _lims(rng, n, ntr) if (ntr > 1 or rng.random() < 0.5) else None
        if rng.random() < 0.2 and ntr >= 2:          # all trajectories equally long
            L = rng.randint(4, 30)
            n, lims = L * ntr, [L] * ntr
        elif rng.random() < 0.2 and ntr >= 3:        # equal lengths that are NOT neighbours (5, 8, 5 / 9, 4, 6, 4): grouping by length must not reorder
            a, b = rng.sample(range(4, 25), 2)
            lims = [a, b, a] if ntr == 3 else rng.choice([[a, b, a, b], [a, b, rng.randint(4, 25), b], [a, b, a, rng.randint(4, 25)]])
            n = sum(lims)
        tiny = kind == 'filter' and rng.random() < 0.15
        if tiny:            # files of one or two frames (a single row with several columns)
            n = rng.choice([1, 1, 2])
            lims = rng.choice([None, [n]] + ([[1, 1]] if n == 2 else []))
        # the limits file is rewritten in place: an earlier partition of the same frames was stored
        # (and loaded) under the same path before
        pre = _lims(rng, n, rng.randint(1, 4)) if (lims is not None and n >= 12 and rng.random() < 0.5) else None
        if kind == 'coring':
            labs, _ = G.alphabet(rng, k=rng.randint(2, 4), kind=rng.choice(['zero', 'one', 'gapped']))
            traj = G.traj(rng, labs, n, sticky=0.85)
            tcor = rng.choice([1, 2, 3, 5])
            if lims is not None and len(lims) >= 2 and rng.random() < 0.3:
                # one trajectory exactly tcor frames long and constant (a single valid core)
                j = rng.randrange(len(lims))
                start = sum(lims[:j])
                extra = tcor - lims[j]
                if extra > 0:
                    traj = traj[:start] + [traj[start]] * extra + traj[start:]
                    lims = lims[:j] + [tcor] + lims[j + 1:]
                    traj[start:start + tcor] = [traj[start]] * tcor
                else:
                    lims = lims[:j] + [tcor, lims[j] - tcor] + lims[j + 1:] if lims[j] > tcor else lims
                    traj[start:start + tcor] = [traj[start]] * tcor
                pre = None
            yield {'k': kind, 'traj': traj, 'lims': lims, 'tcor': tcor, 'prelims': pre}
        elif kind == 'filter':
            nc = rng.randint(2, 4) if tiny else rng.randint(1, 4)
            data = [[round(rng.uniform(-9, 9), 3) for _ in range(nc)] for _ in range(n)]
            yield {'k': kind, 'data': data, 'lims': lims, 'sigma': rng.choice([1.0, 1.5, 2.0, 4.0, 1.125, 1.625, 2.125, 3.125]), 'prelims': pre}
        else:
            labs1 = rng.choice([[1, 2, 3], [1, 2, 3], [1, 5, 65537], [-32768, 0, 32768], [7, 7 + 2**16, 7 + 2**17], [-1, 1, 2], [-1, 0, 3], [-5, -1, 4]])
            t1 = G.traj(rng, labs1, n, sticky=0.7)
            t2 = [labs1.index(v) + 1 if rng.random() < 0.8 else rng.choice([4, 5, 6]) for v in t1]
            yield {'k': kind, 't1': t1, 't2': t2, 'method': rng.choice(['symmetric', 'directed'])}
    for case in gen_long(rng, tier):
        yield case


def gen_long(rng, tier):
    for _ in range(1 if tier == 'quick' else 3):      # a trajectory longer than 2^15 frames listed in the limits file
        labs = rng.sample([0, 1, 2, 3], 3)
        lens = [rng.randint(20, 60), rng.choice([32768, 33000, 40000]), rng.randint(20, 60)]
        traj = []
        for Ln in lens:
            traj += G.traj(rng, labs, Ln, sticky=0.9)
        yield {'k': 'coring', 'traj': traj, 'lims': lens, 'tcor': 3, 'prelims': None}


def corpus():
    return [{'k': 'chunks', 'n': 5, 'chunk': 2},
            {'k': 'filter', 'data': [[float(i % 5), float((i * 3) % 7)] for i in range(30)], 'lims': [10, 8, 12], 'sigma': 2.0},
            {'k': 'coring', 'traj': [0, 0, 0, 1, 0, 0, 1, 1, 1, 0, 1, 1, 1, 1, 0, 0, 0, 0], 'lims': [9, 9], 'tcor': 3}]


def impl(case):
    import os
    import shutil
    import subprocess
    import sys
    import tempfile
    import numpy as np
    import msmhelper as mh
    from click.testing import CliRunner
    from msmhelper.__main__ import main
    if case['k'] == 'chunks':
        from msmhelper.plot._ck_test import _split_array
        r = _split_array(np.arange(case['n']), case['chunk'])
        return {'chunks': [[int(v) for v in c] for c in r]}
    d = tempfile.mkdtemp(prefix='msmv_c19_', dir='/var/tmp')
    try:
        runner = CliRunner()
        lf = None
        if case.get('lims') is not None:
            lf = os.path.join(d, 'limits.dat')
            open(lf, 'w').write('\n'.join(map(str, case['lims'])) + '\n')
        def stale_limits(f, micro):
            # the same path held another partition of the same frames a moment ago and was loaded
            if case.get('prelims') and lf:
                open(lf, 'w').write('\n'.join(map(str, case['prelims'])) + '\n')
                try:
                    (mh.openmicrostates if micro else mh.opentxt_limits)(f, limits_file=lf)
                except Exception:  # noqa
                    pass
                open(lf, 'w').write('\n'.join(map(str, case['lims'])) + '\n')
        if case['k'] == 'coring':
            f, o = os.path.join(d, 'traj.dat'), os.path.join(d, 'out.dat')
            open(f, 'w').write('# states\n' + '\n'.join(map(str, case['traj'])) + '\n')
            stale_limits(f, True)
            args = ['dynamical-coring', '-i', f, '-t', str(case['tcor']), '-o', o] + (['-c', lf] if lf else [])
            res = runner.invoke(main, args)
            out = {'exit': res.exit_code, 'exc': type(res.exception).__name__ if res.exception else None}
            if res.exit_code == 0:
                out['rows'] = [int(v) for v in np.atleast_1d(mh.opentxt(o, dtype=np.int64))]
                api = mh.md.dynamical_coring(mh.openmicrostates(f, limits_file=lf), lagtime=case['tcor'], iterative=True)
                out['api'] = [int(v) for v in api.trajs_flatten]
            else:
                try:
                    mh.md.dynamical_coring(mh.openmicrostates(f, limits_file=lf), lagtime=case['tcor'], iterative=True)
                    out['api'] = 'ok'
                except Exception as exc:  # noqa
                    out['api'] = 'err:' + type(exc).__name__
            return out
        if case['k'] == 'filter':
            f, o = os.path.join(d, 'data.dat'), os.path.join(d, 'out.dat')
            open(f, 'w').write('\n'.join(' '.join(repr(v) for v in row) for row in case['data']) + '\n')
            stale_limits(f, False)
            args = ['gaussian-filtering', '-i', f, '-s', str(case['sigma']), '-o', o] + (['-c', lf] if lf else [])
            res = runner.invoke(main, args)
            out = {'exit': res.exit_code, 'exc': type(res.exception).__name__ if res.exception else None}
            if res.exit_code == 0:
                got = np.atleast_1d(mh.opentxt(o))
                out['shape'] = list(got.shape)
                out['vals'] = [float(v) for v in got.flatten()]
                parts = mh.opentxt_limits(f, limits_file=lf, dtype=np.float32)
                if parts[0].ndim == 1:
                    parts = [p.reshape(-1, 1) for p in parts]
                api = np.vstack([mh.utils.filtering.gaussian_filter(p, sigma=case['sigma']) for p in parts])
                out['api'] = [float(v) for v in api.flatten()]
                out['loaded'] = [[float(v) for v in p.flatten()] for p in parts]
                out['ncols'] = int(parts[0].shape[1])
            return out
        f1, f2 = os.path.join(d, 't1.dat'), os.path.join(d, 't2.dat')
        open(f1, 'w').write('\n'.join(map(str, case['t1'])) + '\n')
        open(f2, 'w').write('\n'.join(map(str, case['t2'])) + '\n')
        res = runner.invoke(main, ['compare-discretization', '--traj1', f1, '--traj2', f2, '--method', case['method']])
        out = {'exit': res.exit_code, 'stdout': res.output[:200]}
        out['api'] = float(mh.md.compare_discretization(np.array(case['t1']), np.array(case['t2']), method=case['method']))
        if os.environ.get('VERIF_C19_SUBPROCESS'):
            p = subprocess.run([sys.executable, '-m', 'msmhelper', 'compare-discretization', '--traj1', f1, '--traj2', f2,
                                '--method', case['method']], capture_output=True, text=True)
            out['sub'] = [p.returncode, p.stdout[:200]]
        return out
    finally:
        shutil.rmtree(d, ignore_errors=True)


def requests(case):
    if case['k'] == 'chunks':
        return [[1901, case['n'], case['chunk']]]
    if case['k'] == 'coring':
        lims = case['lims'] or [len(case['traj'])]
        parts, a = [], 0
        for L in lims:
            parts.append(case['traj'][a:a + L])
            a += L
        return [[501 if len(case['traj']) <= 4000 else 503] + C.enested(parts) + [case['tcor']] + C.ebool(True)]
    if case['k'] == 'sim':
        return [[1301] + C.enested([case['t1']]) + C.enested([case['t2']]) + [0 if case['method'] == 'symmetric' else 1]]
    return []


def judge(case, ibc, answers):
    from props.c20 import weights
    probs = []
    for cfg, r in ibc.items():
        def P(kind, what):
            probs.append({'kind': kind, 'cfg': cfg, 'what': what, 'finding': None})
        if 'err' in r:
            P('impl-vs-spec', 'harness call failed: %s %s' % (r['err'], r.get('msg')))
            continue
        if case['k'] == 'chunks':
            exp = C.Reader(answers[0]).nested()
            if r['chunks'] != exp:
                P('impl-vs-spec', 'chunks %s, expected consecutive chunks %s' % (C.short(r['chunks'], 100), C.short(exp, 100)))
            continue
        if case['k'] == 'coring':
            rd = C.Reader(answers[0])
            model = rd.res(rd.nested)
            if model[0] == 'err':
                if r['exit'] == 0:
                    P('impl-vs-spec', 'command succeeded although a trajectory has no core (%s)' % model[1])
                continue
            flat = [v for t in model[1] for v in t]
            if r['exit'] != 0:
                P('impl-vs-spec', 'dynamical-coring exited with %s (%s) on a valid file' % (r['exit'], r['exc']))
            elif r['rows'] != r['api']:
                P('impl-vs-spec', 'cored file differs from the API result')
            elif len(r['rows']) != len(case['traj']):
                P('impl-vs-spec', 'cored file has %d rows for %d input frames' % (len(r['rows']), len(case['traj'])))
            elif r['rows'] != flat:
                P('impl-vs-spec', 'cored file differs from the per-trajectory iterative reference rule')
            continue
        if case['k'] == 'filter':
            if r['exit'] != 0:
                P('impl-vs-spec', 'gaussian-filtering exited with %s (%s)' % (r['exit'], r['exc']))
                continue
            n, nc = len(case['data']), len(case['data'][0])
            if r['shape'] != ([n, nc] if nc > 1 else [n]):
                P('impl-vs-spec', 'filtered file shape %s, input %s' % (r['shape'], [n, nc]))
                continue
            if any(abs(a - b) > 5.1e-6 for a, b in zip(r['vals'], r['api'])):
                P('impl-vs-spec', 'filtered file differs from the per-trajectory API filter by more than 5e-6')
                continue
            wq = [Fraction(v) for v in weights(case['sigma'])]
            pos = 0
            want = case['lims'] or [n]
            if [len(part) // nc for part in r['loaded']] != want:
                P('impl-vs-spec', 'the file is split into pieces of %s frames, the limits on disk say %s' % (
                    [len(part) // nc for part in r['loaded']], want))
                continue
            for part in r['loaded']:          # exact per-part, per-column filter of the loaded float32 data
                rows = len(part) // nc
                for j in range(nc):
                    col = [Fraction(part[i * nc + j]) for i in range(rows)]
                    exp = C.Reader(C.mrun([[2001] + C.eQs(wq) + C.eQs(col)])[0]).Qs()
                    for i in range(rows):
                        got = r['vals'][(pos + i) * nc + j]
                        if abs(Fraction(got) - exp[i]) > Fraction(6, 10**6):
                            P('impl-vs-spec', 'row %d col %d: %r, per-trajectory exact filter %.6f (smoothing across a boundary?)' % (pos + i, j, got, float(exp[i])))
                            break
                    else:
                        continue
                    break
                pos += rows
            continue
        rd = C.Reader(answers[0])
        model = rd.res(rd.Q)
        for tag, rc, text in [('CliRunner', r['exit'], r['stdout'])] + ([('subprocess', r['sub'][0], r['sub'][1])] if 'sub' in r else []):
            if rc != 0:
                P('impl-vs-spec', '%s: compare-discretization exited with %s' % (tag, rc))
            elif not text.startswith('Similarity: %.5f' % r['api']):
                P('impl-vs-spec', '%s printed %r, API value %.5f' % (tag, text[:30], r['api']))
            elif model[0] == 'ok' and abs(Fraction(r['api']) - model[1]) > Fraction(1, 10**10):
                P('impl-vs-spec', 'similarity %r differs from the exact value %s' % (r['api'], model[1]))
    return probs


def nontrivial(case, ibc):
    return case['k'] in ('coring', 'filter') and case.get('lims') is not None and len(case['lims']) >= 2


def describe(case, ibc):
    return ['kind:' + case['k'], 'trajectories:%s' % (len(case['lims']) if case.get('lims') else 'no-limits' if case['k'] != 'chunks' else '-')]
