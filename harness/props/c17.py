# -*- coding: utf-8 -*-
"""C17 - results do not depend on the representation of the trajectories."""
import common as C
import gen as G

PROP = 'C17'
THEOREMS = ['monotone_states', 'monotone_ranks', 'bijective_counts', 'coring_relabel', 'events_relabel',
            'paths_relabel']
CONFIGS = [dict(jit=True, threads=2), dict(jit=False)]
RULE = ('random trajectory sets; each is passed as list of ints / list of lists / 1-d / 2-d array / list '
        'and tuple of arrays in every integer width the labels permit (uniform and MIXED widths) / '
        'constructed StateTraj, through function and method, and under a strictly increasing and an '
        'arbitrary bijective relabelling; analyses: model estimation, implied timescales, CK test, '
        'coring, waiting times, pathways. Checked: all representations of the same trajectories give '
        'identical results (floats bit-identical), monotone relabelling maps states / cored trajectories '
        '/ pathway keys and leaves matrices, timescales, waiting times unchanged, bijective relabelling '
        'permutes T consistently; the base result equals the exact model. Non-trivial: a non-list form or '
        'non-default dtype is involved (always) and >= 2 trajectories.'
        ' Added classes: (N,1) arrays (N one-frame trajectories), a second strictly increasing relabelling onto alphabets with negative labels whose largest label is n-1 or n, 13..18 index-like states in narrow types, similarity against a second labeling in every representation.'
        ' Later: all-int8 contiguous alphabets from a negative start with > 128 states, alphabets spanning more than 2^20, flipping `positive` on / re-wrapping a lumped object.'
        ' Fifth/sixth batch: lumped objects with micro trajectories in every integer width and macro labels beyond them.')
TRUSTED = ['float comparison of timescales / CK curves at 1e-12 under relabelling']
ASSUMPTIONS = ['labels within +-2^29']
BATCH = 100
WIDTHS = ('int8', 'int16', 'int32', 'int64')


def gen(rng, tier):
    n = G.budget(110) if tier == 'quick' else 3000
    for _ in range(n):
        labs, akind = G.alphabet(rng, k=rng.randint(2, 4), kind=rng.choice(['zero', 'one', 'gapped', 'negative', 'mixed', 'minus1']))
        lag = rng.choice([1, 1, 2])
        equal = rng.random() < 0.4
        nt = rng.choice([1, 2, 3])
        L = rng.randint(6, 30)
        trajs = [G.traj(rng, labs, L if equal else rng.randint(4, 30), sticky=rng.choice([0.5, 0.8])) for _ in range(nt)]
        present = sorted({v for t in trajs for v in t})
        if len(present) < 2:
            continue
        a, b = rng.randint(1, 4), rng.randint(-20, 20)
        perm = present[:]
        rng.shuffle(perm)
        fits = [w for w in WIDTHS if G.fits(trajs, w)]
        if rng.random() < 0.4 and nt >= 2:
            # one trajectory visits a label that needs a wider integer type than the others
            big = rng.choice([200, 300, 40000, -500, 70000])
            k = rng.randrange(1, nt)
            pos = rng.randrange(len(trajs[k]))
            trajs[k] = trajs[k][:pos] + [big] * rng.randint(1, 3) + trajs[k][pos:]
            if equal:
                L2 = min(len(t) for t in trajs)
                trajs = [t[:L2] if i != k else (t[:pos] + [big] + t[pos:])[:L2] for i, t in enumerate(trajs)]
            present = sorted({v for t in trajs for v in t})
            perm = present[:]
            rng.shuffle(perm)
            fits = [w for w in WIDTHS if G.fits(trajs, w)]
        # per-trajectory widths: any width that fits THAT trajectory (narrow first, wide later happens)
        mixed = [rng.choice([w for w in WIDTHS if G.fits([t], w)]) for t in trajs]
        yield {'trajs': trajs, 'lag': lag, 'S': [present[0]], 'F': [present[-1]], 'equal': equal,
               'mono': [a, b], 'bij': dict(zip(map(str, present), perm)), 'widths': fits, 'mixed': mixed,
               'alpha': akind}


def _mono_onto(present, target):
    # strictly increasing relabelling given as an explicit table (stored like 'bij')
    return dict(zip(map(str, present), target))


_base_gen = gen


def gen(rng, tier):  # noqa: F811
    for case in _base_gen(rng, tier):
        present = sorted({v for t in case['trajs'] for v in t})
        n = len(present)
        # a second strictly increasing relabelling onto an arbitrary alphabet, biased towards alphabets
        # with negative labels whose largest label is n-1 or n (they look 0-/1-based from one end)
        r = rng.random()
        if r < 0.35:
            top = rng.choice([n - 1, n - 1, n])
            tgt = sorted(rng.sample(range(-9, top), n - 1)) + [top] if top - (-9) >= n - 1 else list(range(n))
        elif r < 0.5:
            tgt = list(range(rng.choice([0, 1, 2, -1]), 99))[:n]
        elif r < 0.9:
            tgt = sorted(rng.sample(range(-60, 60), n))
        else:       # an alphabet spanning more than 2^20 (with and without a negative label)
            lo = rng.choice([-7, -300000, 0, 5])
            tgt = sorted(set([lo, lo + 2**20 + rng.randint(1, 10**6)] + [lo + rng.randint(1, 2**20) for _ in range(n)]))[:n]
            tgt = sorted(set(tgt[:n - 1] + [lo + 2**20 + 12345])) if len(tgt) >= n else sorted(rng.sample(range(-60, 60), n))
            if len(tgt) != n:
                tgt = sorted(rng.sample(range(-60, 60), n))
        case['mono2'] = _mono_onto(present, tgt)
        yield case
    for _ in range(G.budget(10) if tier == 'quick' else 200):
        # 13..18 contiguous index-like states (narrow integer types keep their width down to the kernels)
        k = rng.randint(13, 18)
        base_ = rng.choice([0, 1])
        labs = list(range(base_, base_ + k))
        nt = rng.choice([1, 2])
        trajs = [G.traj(rng, labs, rng.randint(150, 400), sticky=0.6) + labs for _t in range(nt)]
        present = sorted({v for t in trajs for v in t})
        perm = present[:]
        rng.shuffle(perm)
        fits = [w for w in WIDTHS if G.fits(trajs, w)]
        yield {'trajs': trajs, 'lag': 1, 'S': [present[0]], 'F': [present[-1]], 'equal': False, 'mono': [rng.randint(1, 3), rng.randint(-5, 5)],
               'bij': dict(zip(map(str, present), perm)), 'widths': fits, 'mixed': [rng.choice(fits) for _t in trajs],
               'alpha': 'index-wide', 'light': True, 'mono2': _mono_onto(present, sorted(rng.sample(range(-40, 40), len(present))))}
    for _ in range(G.budget(2) if tier == 'quick' else 40):
        # every trajectory an int8 array, contiguous labels from a negative start, span above 127 (e.g. -100..100)
        lo = rng.randint(-120, -60)
        hi = rng.randint(lo + 130, 127)
        labs = list(range(lo, hi + 1))
        order = labs[:]
        rng.shuffle(order)
        trajs = [order + G.traj(rng, labs, 60, sticky=0.3), G.traj(rng, labs, 80, sticky=0.3)]
        present = sorted({v for t in trajs for v in t})
        perm = present[:]
        rng.shuffle(perm)
        yield {'trajs': trajs, 'lag': 1, 'S': [present[0]], 'F': [present[-1]], 'equal': False, 'mono': [1, rng.randint(0, 5)],
               'bij': dict(zip(map(str, present), perm)), 'widths': ['int8', 'int64'], 'mixed': ['int8', 'int8'],
               'alpha': 'int8-negative-contiguous', 'light': True, 'mono2': _mono_onto(present, list(range(len(present))))}
    for _ in range(G.budget(16) if tier == 'quick' else 300):
        # several trajectories of ONE frame each (2-d shape (N, 1)) and short equal-length sets
        labs, akind = G.alphabet(rng, k=rng.randint(2, 3))
        nt = rng.randint(2, 6)
        L = rng.choice([1, 1, 2])
        trajs = [[rng.choice(labs) for _ in range(L)] for _ in range(nt)]
        present = sorted({v for t in trajs for v in t})
        if len(present) < 2:
            continue
        perm = present[:]
        rng.shuffle(perm)
        fits = [w for w in WIDTHS if G.fits(trajs, w)]
        yield {'trajs': trajs, 'lag': 1, 'S': [present[0]], 'F': [present[-1]], 'equal': True, 'mono': [rng.randint(1, 3), rng.randint(-5, 5)],
               'bij': dict(zip(map(str, present), perm)), 'widths': fits, 'mixed': [rng.choice(fits) for _ in trajs],
               'alpha': akind + '-single-frame', 'mono2': _mono_onto(present, sorted(rng.sample(range(-9, 9), len(present))))}


def corpus():
    return [{'trajs': [[0, 1, 0, 1, 1, 0], [1, 0, 0, 1]], 'lag': 1, 'S': [0], 'F': [1], 'equal': False,
             'mono': [2, 5], 'bij': {'0': 1, '1': 0}, 'widths': list(WIDTHS), 'mixed': ['int32', 'int64'], 'alpha': 'corpus'},
            {'trajs': [[1, 2, 3, 2, 1, 3], [3, 3, 2, 1, 2, 2]], 'lag': 1, 'S': [1], 'F': [3], 'equal': True,
             'mono': [1, 0], 'bij': {'1': 3, '2': 1, '3': 2}, 'widths': list(WIDTHS), 'mixed': ['int8', 'int16'], 'alpha': 'corpus'}]


def impl(case):
    import numpy as np
    import msmhelper as mh
    from analyses import battery
    from implutil import DTYPES
    trajs, lag, S, F = case['trajs'], case['lag'], case['S'], case['F']
    W = ['emm', 'emm_method', 'its', 'ck', 'coring', 'wt', 'paths']
    if case.get('light'):
        W = ['emm', 'emm_method', 'coring', 'wt', 'paths']
    out = {'forms': {}}

    # a second labeling of the same frames (12 classes by value) for the similarity measures
    lab2 = [np.array([(int(v) * 7 + 3) % 12 for v in t], dtype=np.int64) for t in trajs]
    two = len({int(v) for t in lab2 for v in t}) >= 2
    if two:
        W = W + ['sim']

    def run(tag, data):
        out['forms'][tag] = battery(data, lag, S, F, which=W, data2=lab2)
    run('base', [np.array(t, dtype=np.int64) for t in trajs])
    run('lol', [list(t) for t in trajs])
    run('toa', tuple(np.array(t, dtype=np.int64) for t in trajs))
    for w in case['widths']:
        run('loa-' + w, [np.array(t, dtype=DTYPES[w]) for t in trajs])
    run('loa-mixed', [np.array(t, dtype=DTYPES[w]) for t, w in zip(trajs, case['mixed'])])
    run('obj', mh.StateTraj([np.array(t) for t in trajs]))
    if len(trajs) == 1:
        run('list', list(trajs[0]))
        run('arr1', np.array(trajs[0]))
    if case['equal'] or len(trajs) == 1:
        run('arr2', np.array(trajs))
    # an already constructed LumpedStateTraj: function API vs method, timescales on the projected model
    present = sorted({v for t in trajs for v in t})
    if len(present) >= 3:
        f = {v: (10 if i < len(present) // 2 else 20 + (i % 2)) for i, v in enumerate(present)}
        lt = mh.LumpedStateTraj([np.array([f[v] for v in t]) for t in trajs], [np.array(t) for t in trajs])
        out['lumped'] = battery(lt, lag, S, F, which=['emm', 'emm_method', 'its'])
        try:
            # the same object with the flag flipped must answer like a fresh object built with that flag
            Mm = [np.array([f[v] for v in t]) for t in trajs]
            ref = mh.LumpedStateTraj(Mm, [np.array(t) for t in trajs], positive=True).estimate_markov_model(lag)[0]
            # (re-wrapping the object is documented to hand back the same object, untouched)
            wrapped = mh.LumpedStateTraj(mh.LumpedStateTraj(Mm, [np.array(t) for t in trajs], positive=True))
            rewrap_ok = bool(wrapped.positive is True and np.array_equal(wrapped.estimate_markov_model(lag)[0], ref))
            lt.positive = True
            flipped = lt.estimate_markov_model(lag)[0]
            lt.positive = False
            back = lt.estimate_markov_model(lag)[0]
            base0 = mh.LumpedStateTraj(Mm, [np.array(t) for t in trajs]).estimate_markov_model(lag)[0]
            out['lumped']['flip_ok'] = bool(np.array_equal(flipped, ref) and np.array_equal(back, base0) and rewrap_ok)
        except Exception as exc:  # noqa
            out['lumped']['flip_ok'] = None
        # the same lumped data with the MICRO trajectories in every integer width that holds them, macro labels beyond
        # the narrow types (7 / 300 / 70000): assignment, states and both kinds of trajectories as for int64
        wide = {v: (7 if i < len(present) // 2 else (300 if i % 2 else 70000)) for i, v in enumerate(present)}

        def lump_view(dt):
            try:
                l2 = mh.LumpedStateTraj([np.array([wide[v] for v in t]) for t in trajs], [np.array(t, dtype=dt) for t in trajs])
                return {'assign': [int(x) for x in l2.state_assignment], 'states': [int(x) for x in l2.states],
                        'trajs': [[int(x) for x in t] for t in l2.trajs], 'micro': [[int(x) for x in t] for t in l2.microstate_trajs]}
            except Exception as exc:  # noqa
                return {'err': type(exc).__name__}
        ref_view = lump_view(np.int64)
        lo_, hi_ = present[0], present[-1]
        out['lumped']['widths'] = {name: lump_view(dt) == ref_view for name, dt, a_, b_ in (
            ('int8', np.int8, -128, 127), ('int16', np.int16, -32768, 32767), ('int32', np.int32, -2**31, 2**31 - 1),
            ('uint8', np.uint8, 0, 255), ('uint16', np.uint16, 0, 65535)) if a_ <= lo_ and hi_ <= b_}
        try:
            T, _ = lt.estimate_markov_model(lag)
            ev = mh.msm.utils.linalg.left_eigenvalues(T, nvals=T.shape[0])
            out['lumped']['its_ref'] = [(-lag / np.log(e)).real.hex() if (np.isreal(e) and 0 < e.real < 1) else 'nan' for e in ev[1:]]
        except Exception as exc:  # noqa
            out['lumped']['its_ref'] = 'err'
    a, b = case['mono']
    out['mono'] = battery([np.array([a * v + b for v in t]) for t in trajs], lag,
                          [a * v + b for v in S], [a * v + b for v in F], which=W, data2=lab2)
    if case.get('mono2'):
        m2 = {int(k): v for k, v in case['mono2'].items()}
        out['mono2'] = battery([np.array([m2[v] for v in t]) for t in trajs], lag, [m2[v] for v in S], [m2[v] for v in F], which=W, data2=lab2)
    m = {int(k): v for k, v in case['bij'].items()}
    out['bij'] = battery([np.array([m[v] for v in t]) for t in trajs], lag, [m[v] for v in S], [m[v] for v in F],
                         which=['emm', 'coring', 'wt'])
    return out


def requests(case):
    return [[C.emm_entry(case['trajs'])] + C.enested(case['trajs']) + [case['lag']]]


def _mapk(x, f):
    return f(int(x))


def judge(case, ibc, answers):
    from props import c01
    from props.c11 import _close
    probs = []
    for cfg, r in ibc.items():
        def P(kind, what, finding=None):
            probs.append({'kind': kind, 'cfg': cfg, 'what': what, 'finding': finding})
        if 'err' in r:
            P('impl-vs-spec', 'harness call failed: %s %s' % (r['err'], r.get('msg')))
            continue
        base = r['forms']['base']
        model, st, Cm = c01.decode(answers[0])
        if 'err' in base['emm'] or base['emm']['st'] != st or not C.hexes_close(base['emm']['T'], c01.expected_T(Cm)):
            P('impl-vs-spec', 'base representation: T differs from the exact model')
            continue
        for tag, res in r['forms'].items():
            for name in base:
                if res[name] != base[name] and not (name in ('its', 'ck') and _close(res[name], base[name], 0.0)):
                    f = None
                    if tag == 'loa-mixed' and isinstance(res[name], dict) and res[name].get('err', '').startswith('Other:AssertionError') \
                            and len(set(case['mixed'])) > 1:
                        f = 'mixed-width-typed-list'
                    P('impl-vs-spec', 'representation %s changes %s: %s vs base %s' % (
                        tag, name, C.short(res[name], 140), C.short(base[name], 140)), f)
                    break
        if base['emm_method'] != base['emm']:
            P('impl-vs-spec', 'function and method differ')
        lu = r.get('lumped')
        if lu and lu.get('flip_ok') is False:
            P('impl-vs-spec', 'LumpedStateTraj: after flipping `positive` on the object it does not answer like a fresh object with that flag')
        for wname, same in sorted((lu or {}).get('widths', {}).items()):
            if not same:
                P('impl-vs-spec', 'LumpedStateTraj with %s microstate trajectories (macro labels 7 / 300 / 70000): assignment, states or trajectories '
                  'differ from the same data held as int64' % wname)
                break
        if lu and lu['emm'] != lu['emm_method']:
            P('impl-vs-spec', 'LumpedStateTraj: function API %s and method %s differ' % (C.short(lu['emm'], 120), C.short(lu['emm_method'], 120)))
        if lu and 'err' not in lu['its'] and lu.get('its_ref') not in (None, 'err') and 'err' not in lu['emm_method']:
            row = lu['its']['v'][:len(lu['its_ref'])]
            for x, y in zip(row, lu['its_ref']):
                if x != 'nan' and y != 'nan' and abs(float.fromhex(x) - float.fromhex(y)) > 1e-9 * max(1.0, abs(float.fromhex(y))):
                    P('impl-vs-spec', 'LumpedStateTraj: implied timescales %s are not those of the projected model %s' % (row, lu['its_ref']))
                    break
        # strictly increasing relabelling
        a, b = case['mono']
        monos = [('mono', lambda v: a * v + b, lambda s: (int(s) - b) // a)]
        if r.get('mono2'):
            m2 = {int(k): v for k, v in case['mono2'].items()}
            inv2 = {v: k for k, v in m2.items()}
            monos.append(('mono2', lambda v: m2[v], lambda s: inv2.get(int(s), 'not-a-label:%s' % s)))
        for mname, f, finv in monos:
            _judge_mono(case, r, base, r[mname], f, finv, P, _close)
        # arbitrary bijective relabelling: T permuted consistently
        m = {int(k): v for k, v in case['bij'].items()}
        bij = r['bij']
        if 'err' in bij['emm']:
            P('impl-vs-spec', 'bijective relabelling rejected: %s' % bij['emm'])
        else:
            _judge_bij(case, r, base, bij, m, P)
    return probs


def _judge_mono(case, r, base, mono, f, finv, P, _close):
    if True:
        if 'err' in mono['emm'] or mono['emm']['T'] != base['emm']['T'] or mono['emm']['st'] != [f(s) for s in base['emm']['st']]:
            P('impl-vs-spec', 'monotone relabelling changes T or does not relabel the states')
        for name in ('its', 'ck'):
            if name not in base:
                continue
            bb, mm = base[name], mono[name]
            if name == 'ck' and 'err' not in bb and 'err' not in mm:
                mm = {k: dict(d, ck={str(finv(s)): c for s, c in d['ck'].items()}) for k, d in mm.items()}
            if not _close(bb, mm, 1e-12):
                P('impl-vs-spec', 'monotone relabelling changes %s' % name)
        if 'err' not in base['coring'] and mono['coring'].get('trajs') != [[f(v) for v in t] for t in base['coring']['trajs']]:
            P('impl-vs-spec', 'cored trajectories are not relabelled accordingly')
        if mono['wt'] != base['wt']:
            P('impl-vs-spec', 'waiting times change under relabelling')
        if 'sim' in base and not _close(base['sim'], mono.get('sim'), 1e-12):
            P('impl-vs-spec', 'similarity changes under relabelling: %s vs %s' % (base['sim'], mono.get('sim')))
        if 'err' not in base['paths'] and mono['paths'].get('d') != sorted([[f(x) for x in k], vs] for k, vs in base['paths']['d']):
            P('impl-vs-spec', 'pathway keys are not relabelled accordingly')


def _judge_bij(case, r, base, bij, m, P):
    if True:
        if True:
            n = base['emm']['n']
            st0, st1 = base['emm']['st'], bij['emm']['st']
            if sorted(m[s] for s in st0) != st1:
                P('impl-vs-spec', 'bijective relabelling: wrong state list')
            else:
                pos = {s: i for i, s in enumerate(st1)}
                for i in range(n):
                    for j in range(n):
                        if bij['emm']['T'][pos[m[st0[i]]] * n + pos[m[st0[j]]]] != base['emm']['T'][i * n + j]:
                            P('impl-vs-spec', 'bijective relabelling does not permute T consistently')
                            break
                    else:
                        continue
                    break
            if 'err' not in base['coring'] and bij['coring'].get('trajs') != [[m[v] for v in t] for t in base['coring']['trajs']]:
                P('impl-vs-spec', 'bijective relabelling: cored trajectories not mapped')
            if bij['wt'] != base['wt']:
                P('impl-vs-spec', 'bijective relabelling changes waiting times')


def nontrivial(case, ibc):
    return len(case['trajs']) >= 2


def describe(case, ibc):
    return ['ntraj:%d' % len(case['trajs']), 'alphabet:' + case['alpha'], 'equal-lengths:%s' % case['equal'],
            'mixed-widths:%s' % (len(set(case['mixed'])) > 1), 'widths:%d' % len(case['widths'])]
