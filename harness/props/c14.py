# -*- coding: utf-8 -*-
"""C14 - ergodicity predicates vs the transition graph."""
import itertools
from fractions import Fraction

import common as C
import gen as G

PROP = 'C14'
THEOREMS = ['pos_pow_iff_walk_thm', 'is_ergodic_unfold_thm', 'ergodic_sound_thm', 'ergodic_complete_thm', 'is_ergodic_iff_graph_thm',
            'bpow_wexp_iff_graph_thm', 'reach_spec_thm', 'sym_power_is_class_thm', 'sym_power_acyclic_thm',
            'ergodic_mask_classes_thm', 'mask_largest_closed_thm', 'ergodic_complete_loop_partial',
            'wielandt_exponent_covers_loop_bound', 'ergodic_complete_le4', 'walks_monotone_thm', 'bpow_walk_thm', 'atol_free_eq_thm',
            'ergodic_implies_fuzzy_thm', 'nonstochastic_neither_thm']
CONFIGS = [dict(jit=True), dict(jit=False)]
RULE = ('matrices from random sparse count matrices with 2..8 states (irreducible, reducible, '
        'periodic/cyclic, with absorbing, never-entered and never-visited states, block-diagonal '
        'ties), the Wielandt-extremal graphs n=2..8, isolated-state augmentations of ergodic '
        'matrices, plus non-stochastic and non-square inputs; thorough adds all 4x4 supports with '
        'uniform rows. Layer (a): implementation vs the code-shaped exact model (threshold 1e-8 on the '
        'exact power), skipped when an exact entry lies within 1e-12 of a threshold; layer (b): model '
        'vs graph specification (strong connectivity + period, class structure for the mask) on '
        'threshold-free cases. Non-trivial: >= 3 states and reducible / periodic / extremal support, '
        'or ergodic with a zero entry.'
        ' Added classes: one ndarray refilled in place between calls, Fortran/transposed/strided layouts (same verdicts), non-stochastic matrices whose row-sum errors cancel (transposes, symmetrised, mass moved between rows), nearly symmetric and rare-state matrices.'
        ' Later: a never-left state entered with probability 1e-9 (not a transition matrix), metastable lines with self transitions everywhere, read-only matrices.'
        ' Fifth/sixth batch: row sums inside the accepted 1e-8, doubly stochastic non-ergodic matrices.')
TRUSTED = ['np.linalg.matrix_power in floating point (decisions compared only away from the thresholds)',
           'the boolean closedness test class_closed used in mask_largest_closed_thm is an executable '
           'definition (edges leaving the class), not related to a Prop-level notion by a theorem']
ASSUMPTIONS = ['entries are exact rationals from count matrices; floats are their roundings']
BATCH = 400


def _norm(Cm):
    out = []
    for r in Cm:
        s = sum(r)
        out.append([Fraction(c, s) if s else Fraction(0) for c in r])
    return out


def _random_counts(rng, n):
    style = rng.choice(['dense', 'sparse', 'sparse', 'cycle', 'blocks', 'absorbing', 'unvisited', 'transient', 'bipartite'])
    Cm = [[0] * n for _ in range(n)]

    def fill(idx, p):
        for i in idx:
            for j in idx:
                if rng.random() < p:
                    Cm[i][j] = rng.randint(1, 30)
            if not any(Cm[i][j] for j in idx):
                Cm[i][rng.choice(idx)] = rng.randint(1, 9)
    allidx = list(range(n))
    if style == 'dense':
        fill(allidx, 0.9)
    elif style == 'sparse':
        fill(allidx, 0.35)
    elif style == 'cycle':
        for i in allidx:
            Cm[i][(i + 1) % n] = rng.randint(1, 9)
        if rng.random() < 0.5:
            Cm[rng.randrange(n)][rng.randrange(n)] += rng.randint(1, 5)
    elif style == 'bipartite' and n >= 2:
        A, B = allidx[:n // 2], allidx[n // 2:]
        for i in A:
            for j in B:
                if rng.random() < 0.7:
                    Cm[i][j] = rng.randint(1, 9)
            if not any(Cm[i]):
                Cm[i][rng.choice(B)] = 1
        for i in B:
            for j in A:
                if rng.random() < 0.7:
                    Cm[i][j] = rng.randint(1, 9)
            if not any(Cm[i]):
                Cm[i][rng.choice(A)] = 1
    elif style == 'blocks' and n >= 3:
        k = rng.randint(1, n - 1) if rng.random() < 0.5 else n // 2
        fill(allidx[:k], 0.8)
        fill(allidx[k:], 0.8)
    elif style == 'absorbing' and n >= 3:
        fill(allidx[:-1], 0.6)
        Cm[n - 1][n - 1] = rng.randint(1, 9)
        if rng.random() < 0.5:
            Cm[rng.randrange(n - 1)][n - 1] = 1      # absorbing state reachable
    elif style == 'unvisited' and n >= 3:
        fill(allidx[:-1], 0.6)                         # last state: zero row and column
    elif style == 'transient' and n >= 3:
        fill(allidx[1:], 0.6)
        Cm[0][rng.randrange(1, n)] = rng.randint(1, 5)  # never-entered state 0
        if rng.random() < 0.5:
            Cm[0][0] = rng.randint(1, 5)
    else:
        fill(allidx, 0.5)
    return Cm, style


def wielandt(n, variant=0):
    Cm = [[0] * n for _ in range(n)]
    for i in range(n - 1):
        Cm[i][i + 1] = 1
    Cm[n - 1][0] = 1
    if n >= 2:
        Cm[n - 1][1 % n] += 1
    if variant == 1 and n >= 3:     # one more edge: no longer extremal
        Cm[0][0] = 1
    return Cm


def _gen(rng, tier):
    for n in range(2, 9 if tier == 'thorough' else 8):
        for v in (0, 1):
            yield {'k': 'mat', 'M': [[str(x) for x in r] for r in _norm(wielandt(n, v))], 'style': 'wielandt%d' % v}
    N = G.budget(350) if tier == 'quick' else 8000
    for _ in range(N):
        n = rng.choice([2, 3, 3, 4, 4, 5, 5, 6, 6, 7] if tier == 'quick' else [2, 3, 4, 5, 6, 7, 8])
        Cm, style = _random_counts(rng, n)
        T = _norm(Cm)
        r = rng.random()
        if r < 0.04:       # non-stochastic: one entry off
            i, j = rng.randrange(n), rng.randrange(n)
            T[i][j] += Fraction(rng.choice([1, -1]) * rng.choice([1, 3, 10, 1000]), 10 ** rng.choice([1, 3, 6]))
            style = 'nonstochastic'
        elif r < 0.09:     # non-stochastic although the row-sum errors cancel over the matrix
            how = rng.choice(['transpose', 'symmetrised', 'moved'])
            if how == 'transpose':
                T = [[T[j][i] for j in range(n)] for i in range(n)]
            elif how == 'symmetrised':
                T = [[(T[i][j] + T[j][i]) / 2 for j in range(n)] for i in range(n)]
            else:
                i, j = rng.sample(range(n), 2)
                k = max(range(n), key=lambda c: T[i][c])
                eps = T[i][k] / rng.choice([2, 10, 1000])
                T[i][k] -= eps
                T[j][rng.randrange(n)] += eps
            style = 'nonstochastic-' + how
        elif r < 0.16:     # isolated-state augmentation of whatever we have
            kind = rng.choice(['absorbing', 'unvisited'])
            for row in T:
                row.append(Fraction(0))
            T.append([Fraction(0)] * n + [Fraction(1 if kind == 'absorbing' else 0)])
            style = 'aug-' + kind + '-' + style
        yield {'k': 'mat', 'M': [[str(x) for x in r] for r in T], 'style': style}
    for _ in range(G.budget(12) if tier == 'quick' else 300):
        # (a) nearly symmetric count matrices with equal row totals (relative asymmetry ~1e-6);
        # (b) a closed class holding a rarely entered, quickly left state (pi between 1e-6 and 1e-4) next to a transient state
        if rng.random() < 0.5:
            n = rng.randint(3, 6)
            c = [rng.randint(1, 9) for _ in range(n)]
            c = [c[min(k, n - k)] for k in range(n)]
            Cm = [[c[(i - j) % n] * 10**6 for j in range(n)] for i in range(n)]
            for _k in range(rng.randint(1, 3)):
                i = rng.randrange(n)
                j, k2 = rng.sample(range(n), 2)
                d = rng.randint(1, 9)
                Cm[i][j] += d
                Cm[i][k2] -= d
            style = 'nearsym'
        else:
            big = rng.choice([10**4, 3 * 10**4, 10**5])
            Cm = [[big, big, rng.randint(1, 3), 0], [big, big, 0, 0], [rng.randint(1, 9), rng.randint(1, 9), 0, 0], [1, 1, 0, rng.randint(1, 4)]]
            if rng.random() < 0.5:
                Cm = [r[:3] for r in Cm[:3]]
            p = list(range(len(Cm)))
            rng.shuffle(p)
            Cm = [[Cm[p[i]][p[j]] for j in range(len(Cm))] for i in range(len(Cm))]
            style = 'rare-state'
        yield {'k': 'mat', 'M': [[str(x) for x in r] for r in _norm(Cm)], 'style': style}
    for _ in range(G.budget(8) if tier == 'quick' else 200):
        if rng.random() < 0.5:
            # a state that is never left (all-zero row) but entered with a probability of 1e-9: not a transition matrix
            n = rng.randint(3, 5)
            Cm, _st = _random_counts(rng, n - 1)
            T = _norm(Cm)
            for row in T:
                row.append(Fraction(0))
            T.append([Fraction(0)] * n)
            i = rng.randrange(n - 1)
            eps = Fraction(rng.choice([1, 25, 9]), 10**10)
            k = max(range(n - 1), key=lambda c: T[i][c])
            T[i][k] -= eps
            T[i][n - 1] = eps
            yield {'k': 'mat', 'M': [[str(x) for x in r] for r in T], 'style': 'tiny-entry'}
        else:
            # a line of metastable states: every diagonal entry positive, hops of a few percent
            n = rng.randint(6, 8)
            hop = Fraction(rng.choice([25, 30, 50]), 1000)
            T = [[Fraction(0)] * n for _ in range(n)]
            for i in range(n):
                for j in (i - 1, i + 1):
                    if 0 <= j < n:
                        T[i][j] = hop
                T[i][i] = 1 - sum(T[i])
            yield {'k': 'mat', 'M': [[str(x) for x in r] for r in T], 'style': 'metastable-line'}
    for _ in range(G.budget(8) if tier == 'quick' else 200):
        # DOUBLY stochastic matrices that are not ergodic (every column sums to one too, the uniform vector is stationary):
        # the identity, permutations, symmetric blocks side by side
        n = rng.randint(2, 7)
        v = rng.choice(['identity', 'perm', 'blocks', 'blocks'])
        T = [[Fraction(0)] * n for _ in range(n)]
        if v == 'identity':
            for i in range(n):
                T[i][i] = Fraction(1)
        elif v == 'perm':
            p_ = list(range(n))
            rng.shuffle(p_)
            for i in range(n):
                T[i][p_[i]] = Fraction(1)
        else:
            cut = rng.randint(1, n - 1)
            for lo_, hi_ in ((0, cut), (cut, n)):
                m_ = hi_ - lo_
                a_ = Fraction(rng.randint(1, 9), 10 * max(1, m_ - 1)) if m_ > 1 else Fraction(0)
                for i in range(lo_, hi_):
                    for j in range(lo_, hi_):
                        T[i][j] = a_ if i != j else 1 - a_ * (m_ - 1)
        yield {'k': 'mat', 'M': [[str(x) for x in r] for r in T], 'style': 'doubly-stochastic-' + v}
    for _ in range(G.budget(8) if tier == 'quick' else 200):
        # rows that sum to one only within the accepted 1e-8 (all rows, or one, scaled by 1 +- d with d up to 9.9e-9):
        # still a transition matrix by the library's own definition, and as ergodic as the exact one
        n = rng.randint(2, 8)
        Cm = [[rng.randint(1, 9) for _ in range(n)] for _ in range(n)]
        T = _norm(Cm)
        d = Fraction(rng.randint(20, 99), 10**10) * rng.choice([1, 1, -1])
        rows = range(n) if rng.random() < 0.6 else [rng.randrange(n)]
        for i in rows:
            T[i] = [x * (1 + d) for x in T[i]]
        yield {'k': 'mat', 'M': [[str(x) for x in r] for r in T], 'style': 'rows-within-tolerance'}
    for _ in range(6 if tier == 'quick' else 60):
        n, m = rng.choice([(2, 3), (3, 2), (1, 1), (3, 1), (1, 4)])
        yield {'k': 'nonsquare', 'M': [[str(Fraction(1, m))] * m for _ in range(n)], 'style': 'nonsquare'}
    if tier == 'thorough':
        for bits in itertools.product([0, 1], repeat=16):
            Cm = [list(bits[4 * i:4 * i + 4]) for i in range(4)]
            if any(sum(r) == 0 for r in Cm):
                continue
            yield {'k': 'mat', 'M': [[str(x) for x in r] for r in _norm(Cm)], 'style': 'enum4'}
        yield 'EXHAUSTIVE'


def gen(rng, tier):
    # a share of the cases re-uses ONE ndarray object that held the previous matrix of the same size
    # (filled in place): results must depend on the contents only, never on object identity
    last = {}
    for case in _gen(rng, tier):
        if case == 'EXHAUSTIVE' or case['k'] != 'mat':
            yield case
            continue
        n = len(case['M'])
        if n in last and rng.random() < 0.3 and not case['style'].startswith('enum'):
            case = dict(case)
            case['prev'] = last[n]
        last[n] = case['M']
        yield case


def corpus():
    out = []
    for Cm in ([[0, 1], [1, 1]], [[0, 1, 0], [0, 0, 1], [1, 1, 0]],
               [[1, 1, 0, 0], [1, 1, 0, 0], [0, 0, 1, 1], [0, 0, 1, 1]],
               [[0, 1], [1, 0]], [[1, 1, 0], [1, 1, 0], [0, 0, 1]]):
        out.append({'k': 'mat', 'M': [[str(x) for x in r] for r in _norm(Cm)], 'style': 'corpus'})
    out.append({'k': 'mat', 'M': [['1/2', '1/2'], ['1/2', str(Fraction(1, 2) + Fraction(4, 10**6))]], 'style': 'corpus-rowsum'})
    return out


def shrink(case):
    return []


def _F(case):
    return [[Fraction(x) for x in r] for r in case['M']]


def impl(case):
    import numpy as np
    from msmhelper.utils import tests as T
    M = np.array([[float(Fraction(x)) for x in r] for r in case['M']], dtype=np.float64)
    if case.get('prev'):
        new = M
        M = np.array([[float(Fraction(x)) for x in r] for r in case['prev']], dtype=np.float64)
        for f in (T.is_transition_matrix, T.is_ergodic, T.is_fuzzy_ergodic, T.ergodic_mask):
            try:
                f(M)
            except Exception:  # noqa
                pass
        M[:] = new      # same object, new contents
    out = {}
    for name, f in (('tmat', T.is_transition_matrix), ('erg', T.is_ergodic), ('fuzzy', T.is_fuzzy_ergodic)):
        try:
            out[name] = bool(f(M))
        except Exception as exc:  # noqa
            out[name] = 'err:' + type(exc).__name__
    try:
        out['mask'] = [bool(b) for b in T.ergodic_mask(M)]
    except Exception as exc:  # noqa
        out['mask'] = 'err:' + type(exc).__name__
    if M.ndim == 2 and M.shape[0] == M.shape[1] and M.shape[0] >= 2:
        # the predicates depend on the values only, not on the memory layout of the matrix
        from implutil import alt_layouts
        diff = []
        for lname, A in alt_layouts(M).items():
            keep = A.copy()
            for name, f in (('tmat', T.is_transition_matrix), ('erg', T.is_ergodic), ('fuzzy', T.is_fuzzy_ergodic), ('mask', T.ergodic_mask)):
                try:
                    v = f(A)
                    v = [bool(b) for b in v] if name == 'mask' else bool(v)
                except Exception as exc:  # noqa
                    v = 'err:' + type(exc).__name__
                if v != out[name]:
                    diff.append('%s on a %s matrix: %s, C-ordered: %s' % (name, lname, v, out[name]))
            if not np.array_equal(keep, A):
                diff.append('a %s matrix was modified' % lname)
        out['layout_diff'] = diff
    return out


def requests(case):
    if case['k'] == 'nonsquare':
        return []
    return [[1401] + C.eQmat(_F(case))]


def decode(ans):
    rd = C.Reader(ans)
    d = {'tmat': rd.bool(), 'erg': rd.bool(), 'fuzzy': rd.bool()}
    d['mask'] = rd.res(lambda: rd.list(rd.bool))
    d['gerg'] = rd.bool()
    d['tfree'] = rd.bool()
    d['rclear'] = rd.bool()
    d['stoch'] = rd.bool()
    d['mspec'] = rd.opt(lambda: rd.list(rd.bool))
    return d


def judge(case, ibc, answers):
    probs = []
    if case['k'] == 'nonsquare':
        for cfg, r in ibc.items():
            if r.get('erg') is True or r.get('fuzzy') is True or r.get('tmat') is True:
                probs.append({'kind': 'impl-vs-spec', 'cfg': cfg, 'finding': None,
                              'what': 'non-square input reported as transition matrix / ergodic: %s' % r})
        return probs
    m = decode(answers[0])
    decidable = m['tfree'] and m['rclear']
    if decidable:
        for cfg, r in ibc.items():
            for d in r.get('layout_diff') or []:
                probs.append({'kind': 'impl-vs-spec', 'cfg': cfg, 'finding': None, 'what': d})
    if decidable and m['stoch']:
        if m['erg'] != m['gerg']:
            probs.append({'kind': 'model-vs-spec', 'cfg': '-', 'finding': None,
                          'what': 'power test %s, graph test (strongly connected and aperiodic) %s' % (m['erg'], m['gerg'])})
        if m['mspec'] is not None and m['mask'] != ('ok', m['mspec']):
            probs.append({'kind': 'model-vs-spec', 'cfg': '-', 'finding': None,
                          'what': 'mask %s, largest closed classes %s' % (m['mask'], m['mspec'])})
    base_fuzzy = None
    if case['style'].startswith('aug-') and decidable:
        # isolated absorbing / never-visited state added to a base matrix: fuzzy ergodicity must survive
        B = [row[:-1] for row in _F(case)[:-1]]
        if len(B) >= 2:
            mb = decode(C.mrun([[1401] + C.eQmat(B)])[0])
            # the property speaks about ERGODIC matrices: they stay fuzzy-ergodic when isolated states are added
            if mb['tfree'] and mb['rclear'] and mb['erg']:
                base_fuzzy = True
                if not m['fuzzy']:
                    probs.append({'kind': 'model-vs-spec', 'cfg': '-', 'finding': None,
                                  'what': 'model: adding an isolated state to an ergodic matrix destroys fuzzy ergodicity'})
    for cfg, r in ibc.items():
        def P(kind, what):
            probs.append({'kind': kind, 'cfg': cfg, 'what': what, 'finding': None})
        if base_fuzzy and r['fuzzy'] is not True:
            P('impl-property', 'ergodic matrix is not fuzzy-ergodic after adding an isolated %s state' % case['style'].split('-')[1])
        # property-level implications on the implementation alone
        if r['erg'] is True and r['fuzzy'] is not True:
            P('impl-property', 'reported ergodic but not fuzzy-ergodic')
        if r['tmat'] is False and (r['erg'] is not False or r['fuzzy'] is not False):
            P('impl-property', 'not a transition matrix but ergodic/fuzzy reported %s/%s' % (r['erg'], r['fuzzy']))
        if not decidable:
            continue
        exp_mask = m['mask'][1] if m['mask'][0] == 'ok' else 'err:' + m['mask'][1]
        got = (r['tmat'], r['erg'], r['fuzzy'], r['mask'])
        exp = (m['tmat'], m['erg'], m['fuzzy'], exp_mask)
        if got != exp:
            kind = 'impl-vs-spec' if (m['stoch'] and (m['erg'] == m['gerg'])) or not m['tmat'] else 'impl-vs-model'
            P(kind, '(is_tmat, is_ergodic, is_fuzzy_ergodic, mask) = %s, exact model %s%s' % (
                got, exp, '' if not m['stoch'] else ' [graph: ergodic=%s, mask=%s]' % (m['gerg'], m['mspec'])))
    return probs


def nontrivial(case, ibc):
    if case['k'] == 'nonsquare':
        return False
    r = next(iter(ibc.values()))
    n = len(case['M'])
    zero = any(Fraction(x) == 0 for row in case['M'] for x in row)
    return n >= 3 and zero


def describe(case, ibc):
    r = next(iter(ibc.values()))
    return ['n:%d' % len(case['M']), 'style:' + case['style'].split('-')[0],
            'impl-ergodic:%s' % r.get('erg'), 'impl-fuzzy:%s' % r.get('fuzzy'),
            'reused-buffer:%s' % bool(case.get('prev'))]
