# -*- coding: utf-8 -*-
"""Source-drift sentinel (never a verdict): digest of the normalised AST of the functions a
property is anchored in.  A changed digest is written into the evidence and raises the random
case budget of that property's run (VERIF_BOOST); it never fails a check by itself."""
import ast
import hashlib
import json
import os

SRC = os.path.join(os.environ.get('VERIF_REPO', '/repo'), 'src', 'msmhelper')
HERE = os.path.dirname(os.path.abspath(__file__))
ANCHORS = {
    'C01': {'msm/msm.py': None, 'statetraj.py': ['StateTraj']},
    'C02': {'statetraj.py': None, 'utils/_utils.py': ['format_state_traj', '_check_state_traj', 'shift_data', '_flatten_data', '_unflatten_data']},
    'C03': {'statetraj.py': ['LumpedStateTraj'], 'msm/msm.py': ['row_normalize_matrix', 'equilibrium_population']},
    'C04': {'msm/msm.py': ['equilibrium_population'], 'utils/tests.py': None, 'msm/utils/linalg.py': None},
    'C05': {'md/corrections.py': None},
    'C06': {'md/timescales.py': None, 'md/comparison.py': ['_intersect']},
    'C07': {'msm/timescales.py': ['propagate_MCMC', '_propagate_MCMC', '_propagate_MCMC_step', '_get_cummat'], 'utils/datasets.py': ['propagate_tmat']},
    'C08': {'msm/timescales.py': ['_estimate_times', '_estimate_waiting_times', '_estimate_transition_times', 'estimate_paths',
                                  'estimate_waiting_times', 'estimate_transition_times']},
    'C09': {'msm/tests.py': None},
    'C10': {'msm/timescales.py': ['implied_timescales', '_implied_timescales'], 'msm/utils/linalg.py': None},
    'C11': {'msm/msm.py': None, 'md/corrections.py': None, 'md/timescales.py': None, 'statetraj.py': ['StateTraj']},
    'C12': {'msm/msm.py': None, 'md/corrections.py': None, 'md/timescales.py': None, 'md/comparison.py': None, 'utils/_utils.py': ['matrix_power', 'find_first']},
    'C13': {'md/comparison.py': None},
    'C14': {'utils/tests.py': None, 'utils/_utils.py': ['matrix_power']},
    'C15': {'utils/_utils.py': ['shift_data', 'rename_by_population', 'rename_by_index', 'unique', '_flatten_data', '_unflatten_data']},
    'C16': {'io.py': None, 'utils/_utils.py': ['swapcols', '_asindex']},
    'C17': {'utils/_utils.py': ['format_state_traj', '_check_state_traj'], 'statetraj.py': None, 'msm/msm.py': ['estimate_markov_model', '_estimate_markov_model']},
    'C18': {'md/corrections.py': None, 'utils/_utils.py': None, 'msm/msm.py': None, 'statetraj.py': None, 'utils/filtering.py': None, 'msm/timescales.py': None},
    'C19': {'_cli/dynamical_coring.py': None, '_cli/gaussian_filter.py': None, '_cli/compare_discretization.py': None, 'plot/_ck_test.py': ['_split_array']},
    'C20': {'utils/filtering.py': None, 'utils/_utils.py': ['runningmean']},
}


def _strip_doc(node):
    for n in ast.walk(node):
        if isinstance(n, (ast.FunctionDef, ast.ClassDef, ast.Module, ast.AsyncFunctionDef)):
            if n.body and isinstance(n.body[0], ast.Expr) and isinstance(getattr(n.body[0], 'value', None), ast.Constant) \
                    and isinstance(n.body[0].value.value, str):
                n.body = n.body[1:] or [ast.Pass()]
    return node


def digest(prop):
    h = hashlib.sha256()
    for rel, names in sorted(ANCHORS.get(prop, {}).items()):
        path = os.path.join(SRC, rel)
        try:
            tree = _strip_doc(ast.parse(open(path).read()))
        except Exception as exc:  # noqa
            h.update(('unparsable:%s:%s' % (rel, type(exc).__name__)).encode())
            continue
        for node in tree.body:
            name = getattr(node, 'name', None)
            if names is None or name in names:
                h.update(ast.dump(node, annotate_fields=False, include_attributes=False).encode())
    return h.hexdigest()[:16]


def stored():
    p = os.path.join(HERE, 'sentinel.json')
    return json.load(open(p)) if os.path.exists(p) else {}


def _pyver():
    import sys
    return '%d.%d' % sys.version_info[:2]


def drift(prop):
    """(current digest, recorded digest, changed?)  ast.dump differs between interpreter versions, so
    digests recorded by another Python are 'unknown' (no drift reported), never 'changed'"""
    st = stored()
    cur, rec = digest(prop), st.get(prop)
    if st.get('_python') != _pyver():
        return cur, None, False
    return cur, rec, (rec is not None and cur != rec)


if __name__ == '__main__':
    rec = {p: digest(p) for p in sorted(ANCHORS)}
    rec['_python'] = _pyver()
    json.dump(rec, open(os.path.join(HERE, 'sentinel.json'), 'w'), indent=1)
    print('recorded', len(ANCHORS), 'with python', _pyver())
