# -*- coding: utf-8 -*-
"""Driver of one property check:  main.py <CXX> quick|thorough   or
main.py replay <file>.

1. proof obligations: (re)compile coq/Props/CXX.v, read Print Assumptions;
2. correspondence: implementation (from /repo/src) vs extracted model/spec;
3. search/shrink on disagreement, known-finding matching, evidence.
"""
import concurrent.futures as cf
import hashlib
import importlib
import json
import os
import random
import re
import subprocess
import sys

sys.path.insert(0, os.path.dirname(os.path.abspath(__file__)))
import common as C  # noqa: E402

BANNED = re.compile(
    r'\b(Admitted|admit|Axiom|Axioms|Parameter|Parameters|Conjecture|Conjectures|'
    r'Unset\s+Guard|bypass_check|Admit\s+Obligations|give_up)\b|type-in-type|impredicative-set|'
    r'Unset\s+Positivity|Unset\s+Universe')
ALLOWED_AXIOMS = {
    # standard-library axioms that may appear (Reals in C10); named in DESIGN section 4
    'ClassicalDedekindReals.sig_forall_dec', 'ClassicalDedekindReals.sig_not_dec',
    'FunctionalExtensionality.functional_extensionality_dep', 'Classical_Prop.classic',
}


def strip_comments(src):
    out, depth, i = [], 0, 0
    while i < len(src):
        if src.startswith('(*', i):
            depth += 1
            i += 2
        elif src.startswith('*)', i) and depth:
            depth -= 1
            i += 2
        else:
            if not depth:
                out.append(src[i])
            i += 1
    return ''.join(out)


def grep_gate():
    """Reject forbidden vernacular anywhere under coq/ (comments stripped);
    also section-less Variable/Hypothesis."""
    bad = []
    for root, _, files in os.walk(C.COQ):
        for f in files:
            if not f.endswith('.v'):
                continue
            p = os.path.join(root, f)
            src = strip_comments(open(p).read())
            for m in BANNED.finditer(src):
                bad.append('%s: %s' % (os.path.relpath(p, C.COQ), m.group(0)))
            depth = 0
            for line in src.split('\n'):
                s = line.strip()
                if re.match(r'Section\s+\w+', s):
                    depth += 1
                elif re.match(r'End\s+\w+', s) and depth:
                    depth -= 1
                elif re.match(r'(Variable|Variables|Hypothesis|Hypotheses|Context)\b', s) and depth == 0:
                    bad.append('%s: section-less %s' % (os.path.relpath(p, C.COQ), s[:40]))
    return bad


def prove(prop, mod):
    """Compile the property file; return dict(obligations, discharged, axioms, ok, log)."""
    vfile = 'Props/%s.v' % prop
    res = {'obligations': 0, 'discharged': 0, 'axioms': [], 'ok': False, 'log': '',
           'theorems': [], 'failed': []}
    if not os.path.exists(os.path.join(C.COQ, vfile)):
        res['log'] = 'missing ' + vfile
        return res
    lock = os.path.join(C.VERIF, '.build.lock')
    p = subprocess.run(
        ['flock', lock, 'timeout', '3000', 'make', '-C', C.COQ, '-j8', vfile + 'o'],
        capture_output=True, text=True)
    if p.returncode != 0:
        res['log'] = (p.stdout + p.stderr)[-3000:]
        res['failed'].append('make %so' % vfile)
    src = strip_comments(open(os.path.join(C.COQ, vfile)).read())
    thms = re.findall(r'\b(?:Theorem|Lemma|Corollary|Example)\s+(\w+)', src)
    printed = re.findall(r'Print\s+Assumptions\s+(\w+)\s*\.', src)
    res['theorems'] = thms
    res['obligations'] = len(thms)
    missing = [t for t in getattr(mod, 'THEOREMS', []) if t not in thms]
    if missing:
        res['failed'].append('theorems missing from %s: %s' % (vfile, missing))
    unprinted = [t for t in thms if t not in printed]
    if unprinted:
        res['failed'].append('no Print Assumptions for: %s' % unprinted)
    if p.returncode != 0:
        return res
    import tempfile
    tmpd = tempfile.mkdtemp(prefix='msmv_props_', dir='/var/tmp')
    try:
        q = subprocess.run(['timeout', '900', 'coqc', '-Q', '.', 'MsmV', '-o',
                            os.path.join(tmpd, prop + '.vo'), vfile],
                           capture_output=True, text=True, cwd=C.COQ)
    finally:
        import shutil
        shutil.rmtree(tmpd, ignore_errors=True)
    out = q.stdout
    res['log'] = (out + q.stderr)[-4000:]
    if q.returncode != 0:
        res['failed'].append('coqc %s' % vfile)
        return res
    blocks = re.split(r'(?=Closed under the global context|Axioms:)', out)
    blocks = [b for b in blocks if b.startswith('Closed under') or b.startswith('Axioms:')]
    if len(blocks) != len(printed):
        res['failed'].append('expected %d assumption blocks, saw %d' % (len(printed), len(blocks)))
        return res
    axioms = set()
    discharged = 0
    for name, b in zip(printed, blocks):
        if b.startswith('Closed under'):
            discharged += 1 if name in thms else 0
            continue
        names = [n for n in re.findall(r'^([A-Za-z_][\w.\']*)(?:\s*:|\s*$)', b, flags=re.M) if n != 'Axioms']
        extra = [n for n in names if n not in ALLOWED_AXIOMS]
        axioms.update(names)
        if extra:
            res['failed'].append('%s depends on non-allowed axioms %s' % (name, extra))
        elif name in thms:
            discharged += 1
    res['discharged'] = discharged
    res['axioms'] = sorted(axioms)
    res['ok'] = not res['failed'] and discharged == len(thms) and len(thms) > 0
    return res


def ensure_built():
    lock = os.path.join(C.VERIF, '.build.lock')
    p = subprocess.run(['flock', lock, os.path.join(C.VERIF, 'setup.sh'), '--incremental'],
                       capture_output=True, text=True)
    if p.returncode != 0:
        sys.stderr.write(p.stdout[-3000:] + p.stderr[-3000:])
        print('BUILD-FAILURE: the verification machinery itself does not build')
        sys.exit(2)


def case_key(case):
    return hashlib.sha1(json.dumps(case, sort_keys=True).encode()).hexdigest()


def evaluate(mod, workers, cases):
    """Run implementation (all configs) and model on cases; return list of
    (case, impl_by_cfg, answers, problems)."""
    reqs, spans = [], []
    for c in cases:
        r = mod.requests(c)
        spans.append((len(reqs), len(reqs) + len(r)))
        reqs += r
    with cf.ThreadPoolExecutor(max_workers=len(workers) + 1) as ex:
        fm = ex.submit(C.mrun, reqs)
        fi = {w.name: ex.submit(w.run, cases) for w in workers}
        answers = fm.result()
        impl = {k: f.result() for k, f in fi.items()}
    out = []
    for k, c in enumerate(cases):
        a, b = spans[k]
        ibc = {name: impl[name][k] for name in impl}
        hooks = sorted({r['hook'] for r in ibc.values() if isinstance(r, dict) and r.get('hook')})
        if hooks:
            # a private helper the harness instruments is gone / changed: the correspondence no longer
            # checks for this case (no failing input; the remaining public-API cases are the search)
            out.append((c, ibc, answers[a:b], [{'kind': 'correspondence', 'cfg': '-', 'finding': None,
                                                'what': 'instrumented private helper no longer matches: %s' % '; '.join(hooks)}]))
            continue
        try:
            probs = mod.judge(c, ibc, answers[a:b])
        except Exception as exc:  # noqa
            # the oracle could not even read the implementation's answer (e.g. labels that are not
            # states of the input): that is a deviation of the implementation, never a silent skip
            import traceback
            probs = [{'kind': 'impl-vs-spec', 'cfg': next(iter(ibc), '-'), 'finding': None,
                      'what': 'the answer of the implementation cannot be interpreted by the oracle (%s: %s) at %s' % (
                          type(exc).__name__, exc, traceback.format_exc().strip().splitlines()[-3].strip()[:120])}]
        out.append((c, ibc, answers[a:b], probs))
    return out


def shrink(mod, workers, case, same):
    """Greedy shrinking keeping a problem for which same(problems) holds."""
    if not hasattr(mod, 'shrink'):
        return case
    budget = 300
    cur = case
    progress = True
    while progress and budget > 0:
        progress = False
        for cand in mod.shrink(cur):
            budget -= 1
            if budget <= 0:
                break
            try:
                (_, _, _, probs), = evaluate(mod, workers, [cand])
            except Exception:
                continue
            if same(probs):
                cur = cand
                progress = True
                break
    return cur


def write_replay(prop, seed, case, ibc, answers, probs, note=None):
    d = os.path.join(C.VERIF, 'replays')
    os.makedirs(d, exist_ok=True)
    path = os.path.join(d, '%s-%s-%s.json' % (prop, seed, case_key(case)[:10]))
    with open(path, 'w') as fh:
        json.dump({'property': prop, 'case': case, 'implementation': ibc,
                   'model_answers': answers, 'problems': probs, 'note': note,
                   'how': './check replay ' + path}, fh, indent=1, default=str)
    return path


def run_check(prop, tier, seed):
    timer = C.Timer()
    mod = importlib.import_module('props.' + prop.lower())
    ensure_built()
    gate = grep_gate()
    proof = prove(prop, mod)
    if gate:
        proof['ok'] = False
        proof['failed'].append('grep gate: %s' % gate[:5])

    import sentinel
    cur_d, rec_d, changed = sentinel.drift(prop)
    if changed and tier == 'quick':
        os.environ['VERIF_BOOST'] = '3'      # anchored source differs from the text the model was written against
    rng = random.Random(seed)
    cfgs = mod.CONFIGS_THOROUGH if (tier == 'thorough' and hasattr(mod, 'CONFIGS_THOROUGH')) else mod.CONFIGS
    workers = [C.Worker(prop, **cfg) for cfg in cfgs]
    known = C.known_ids(prop)
    violations, known_hits = [], {}
    n_eval, nontriv, dist, samples = 0, set(), {}, []
    exhaustive = False
    try:
        stream = []
        corpus = list(mod.corpus()) if hasattr(mod, 'corpus') else []
        gen = mod.gen(rng, tier)
        batch, BATCH = list(corpus), getattr(mod, 'BATCH', 5000)

        def flush(batch):
            nonlocal n_eval
            for case, ibc, answers, probs in evaluate(mod, workers, batch):
                n_eval += 1
                if mod.nontrivial(case, ibc):
                    nontriv.add(case_key(case))
                if hasattr(mod, 'describe'):
                    for tag in mod.describe(case, ibc):
                        dist[tag] = dist.get(tag, 0) + 1
                if len(samples) < 3 or (len(samples) < 6 and mod.nontrivial(case, ibc)):
                    samples.append({'case': case, 'implementation': next(iter(ibc.values()))})
                if not probs:
                    continue
                corr = [p for p in probs if p['kind'] == 'correspondence']
                if corr:
                    # broken instrumentation: reported once (no failing input), the search goes on
                    dist['correspondence-broken'] = dist.get('correspondence-broken', 0) + 1
                    if not any(all(q['kind'] == 'correspondence' for q in v[3]) for v in violations):
                        violations.append((case, ibc, answers, corr))
                    probs = [p for p in probs if p['kind'] != 'correspondence']
                    if not probs:
                        continue
                fids = {p.get('finding') for p in probs}
                if all(f in known for f in fids):
                    for f in fids:
                        known_hits.setdefault(f, case)
                    continue
                if len(violations) < 6:
                    kinds = {p['kind'] for p in probs if p.get('finding') not in known}

                    def same(ps, kinds=kinds):
                        return any(p['kind'] in kinds and p.get('finding') not in known for p in ps)
                    small = shrink(mod, workers, case, same)
                    (sc, sibc, sans, sprobs), = evaluate(mod, workers, [small])
                    violations.append((sc, sibc, sans, sprobs))

        for case in gen:
            if case == 'EXHAUSTIVE':
                exhaustive = True
                continue
            batch.append(case)
            if len(batch) >= BATCH:
                flush(batch)
                batch = []
                if len(violations) >= 6:
                    break
        if batch:
            flush(batch)
    finally:
        for w in workers:
            w.close()

    # ---- extraction cross-check (mrun vs mrun_ref, thorough: vs vm_compute) and coqchk
    xc = C.cross_check(tier)
    if xc['mismatches']:
        proof['ok'] = False
        proof['failed'].append('extraction cross-check mismatch: %s' % xc['mismatches'][:2])
    chk = None
    if tier == 'thorough':
        q = subprocess.run(['timeout', '1800', 'coqchk', '-silent', '-o', '-Q', C.COQ, 'MsmV', 'MsmV.Props.' + prop],
                           capture_output=True, text=True)
        txt = q.stdout + q.stderr
        chk = {'rc': q.returncode, 'axioms': re.findall(r'^\s+([A-Za-z_][\w.]*)\s*$', txt.split('Axioms:')[-1], flags=re.M)[:40] if 'Axioms:' in txt else [],
               'tail': txt[-600:]}
        if q.returncode != 0:
            proof['ok'] = False
            proof['failed'].append('coqchk failed')
    # ---- verdict
    lines, rc = [], 0
    for fid, case in known_hits.items():
        lines.append('KNOWN-FINDING: property=%s %s (%s) e.g. %s' % (
            prop, fid, known[fid].get('what_fails', ''), C.short(case, 160)))
    for sc, sibc, sans, sprobs in violations:
        failing = any(p['kind'] in ('impl-vs-spec', 'impl-property') for p in sprobs)
        path = write_replay(prop, seed, sc, sibc, sans, sprobs)
        lines.append('VIOLATION property=%s replay=%s%s' % (
            prop, path, '' if failing else ' no-failing-input-found'))
        rc = 1
    if not proof['ok']:
        # a proof obligation no longer checks: search already done above
        if not violations:
            path = write_replay(prop, seed, {'proof': proof['failed']}, {}, [], [
                {'kind': 'proof', 'what': proof['failed'], 'log': proof['log'][-1500:]}],
                note='theorem(s) or assumption check no longer pass; no failing input found '
                     'among %d cases' % n_eval)
            lines.append('VIOLATION property=%s replay=%s no-failing-input-found' % (prop, path))
        rc = 1
    ev = {
        'property_id': prop, 'tier': tier, 'seed': seed, 'level': 'proof',
        'coverage': {
            'obligations': proof['obligations'], 'discharged': proof['discharged'],
            'checker_cmd': 'make -C coq Props/%s.vo && coqc -Q coq MsmV coq/Props/%s.v '
                           '(Print Assumptions under every theorem)' % (prop, prop),
            'trusted_base': [
                'Coq 8.16.1 kernel (coqc); vm_compute in finite-domain lemmas only; no native_compute',
                'axioms reported by Print Assumptions: %s' % (proof['axioms'] or 'none (closed under the global context)'),
                'extraction: bin/mrun = Coq standard library ExtrOcamlBasic + ExtrOcamlZBigInt (positive/N/Z as Zarith integers; its Extract Inductive/Constant directives are those of theories/extraction/ExtrOcamlZBigInt.v, none of our own), ocaml/driverfast.ml; cross-checked on a sample each run against bin/mrun_ref = ExtrOcamlBasic only (bool, option, unit, prod, list, sumbool, sumor; Z, positive, nat as Coq inductives; ocaml/driver.ml) and, in the thorough tier, against vm_compute inside Coq; OCaml 4.13.1, zarith 1.12',
                'hand-written model tied to /repo/src by the correspondence harness (harness/props/%s.py): sampled, not for-all' % prop.lower(),
            ] + list(getattr(mod, 'TRUSTED', [])),
            'theorems': proof['theorems'],
            'evaluations': n_eval, 'distinct_nontrivial': len(nontriv),
            'rule': mod.RULE, 'samples': samples[:6], 'exhaustive': exhaustive,
            'configurations': [w.name for w in workers],
            'input_distribution': dict(sorted(dist.items())),
            'known_findings_hit': sorted(known_hits),
            'proof_failures': proof['failed'],
            'extraction_cross_check': xc, 'coqchk': chk,
            'source_sentinel': {'digest': cur_d, 'recorded': rec_d, 'anchored_source_changed': changed,
                                'note': 'never a verdict; a changed digest triples the random case budget of the quick tier'},
        },
        'assumptions': list(getattr(mod, 'ASSUMPTIONS', [])),
        'wall_s': timer.s(), 'violations': len(violations) + (0 if proof['ok'] else 1),
    }
    # evidence/<id>.json describes runs against /repo only; runs pointed at another checkout
    # (VERIF_REPO, used for seeded changes) leave it alone and write next to the replays
    evdir = os.path.join(C.VERIF, 'evidence') if os.path.realpath(C.REPO) == '/repo' else os.path.join(C.VERIF, 'replays', 'evidence-other-checkout')
    os.makedirs(evdir, exist_ok=True)
    with open(os.path.join(evdir, prop + '.json'), 'w') as fh:
        json.dump(ev, fh, indent=1, default=str)
    for ln in lines:
        print(ln)
    print('%s %s: %d theorems (%d discharged), %d cases, %d non-trivial, %d violations, %.1fs' % (
        prop, tier, proof['obligations'], proof['discharged'], n_eval, len(nontriv),
        len(violations), timer.s()))
    return rc


def replay(path):
    data = json.load(open(path))
    prop = data['property']
    mod = importlib.import_module('props.' + prop.lower())
    ensure_built()
    if 'proof' in data['case']:
        proof = prove(prop, mod)
        print(json.dumps({'proof_ok': proof['ok'], 'failed': proof['failed']}, indent=1))
        return 0 if proof['ok'] else 1
    workers = [C.Worker(prop, **cfg) for cfg in mod.CONFIGS]
    try:
        (case, ibc, answers, probs), = evaluate(mod, workers, [data['case']])
    finally:
        for w in workers:
            w.close()
    print(json.dumps({'case': case, 'implementation': ibc, 'problems': probs}, indent=1, default=str))
    known = C.known_ids(prop)
    bad = [p for p in probs if p.get('finding') not in known]
    if bad:
        print('VIOLATION property=%s replay=%s' % (prop, path))
        return 1
    return 0


def main():
    if sys.argv[1] == 'replay':
        sys.exit(replay(sys.argv[2]))
    prop = sys.argv[1]
    tier = sys.argv[2] if len(sys.argv) > 2 else os.environ.get('VERIF_TIER', 'quick')
    seed = int(os.environ.get('VERIF_SEED', '20260930'))
    sys.exit(run_check(prop, tier, seed))


if __name__ == '__main__':
    main()
